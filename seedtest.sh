#!/bin/bash
# usage: seedtest.sh <patch.diff> <ID> [<ID>...]
# Applies a seeded change to /repo, runs the quick checks named, and undoes it.
patch="$1"; shift
cd /repo || exit 2
if ! git diff --quiet; then echo "/repo is dirty" >&2; exit 2; fi
git apply "$patch" || { echo "patch does not apply"; exit 2; }
trap 'git -C /repo checkout -- . ; git -C /repo clean -fdq -- src tests 2>/dev/null' EXIT
cd /verif
for id in "$@"; do
	start=$(date +%s)
	out=$(./check "$id" quick 2>&1)
	code=$?
	end=$(date +%s)
	echo "== $id exit=$code $((end - start))s"
	echo "$out" | grep -E "^  |INCONCLUSIVE|INFRA" | grep -v "^  at " | cut -c1-420 | sort | uniq -c | sort -rn | head -4
done
