#!/bin/bash
# usage: seedverify.sh <dir with patchN.diff demoN.{rs,sh}> <N>
# Confirms in a scratch worktree: patch applies, builds, 142 tests pass with it,
# the demo fails with it and passes without it.
dir="$1"; n="$2"
wt=/tmp/seedverify; export XT_DIR=$wt
export CARGO_TARGET_DIR=/tmp/seedverify-target
git -C /repo worktree remove --force $wt >/dev/null 2>&1
git -C /repo worktree add -q --detach $wt HEAD || exit 2
cd $wt
demo_rs="$dir/demo$n.rs"; demo_sh="$dir/demo$n.sh"
run_demo() {
	if [ -f "$demo_rs" ]; then
		cp "$demo_rs" tests/seeded_demo.rs
		timeout 600 cargo test --offline --test seeded_demo >/tmp/seedverify-demo.log 2>&1; rc=$?
		rm -f tests/seeded_demo.rs
		return $rc
	else
		( cd $wt && timeout 900 bash "$demo_sh" "$wt" >/tmp/seedverify-demo.log 2>&1 )
		return $?
	fi
}
run_demo; clean=$?
git apply "$dir/patch$n.diff" || { echo "PATCH DOES NOT APPLY"; exit 2; }
timeout 900 cargo test --workspace --offline 2>&1 | grep -E "^test result" | awk '{p+=$4; f+=$6} END {print "suite with patch: passed=" p " failed=" f}'
run_demo; patched=$?
echo "demo without patch: exit $clean (want 0); with patch: exit $patched (want non-zero)"
cd /; git -C /repo worktree remove --force $wt
