#!/usr/bin/env python3
"""Copies verified seeded changes from the sub-agents' output directory into /verif/seeded/<id>/.
usage: seeded_import.py <outdir> <results.json>
results.json: {"C01-1": {"verified": "...", "caught_by": [...], "missed_by": [...], "notes": "..."}}"""
import json, os, shutil, sys, glob
out, results = sys.argv[1], json.load(open(sys.argv[2]))
for key, r in sorted(results.items()):
    prop, n = key.split("-")
    n = str(r.get("src_n", n))
    src = os.path.join(out, prop)
    dst = os.path.join("/verif/seeded", key)
    os.makedirs(dst, exist_ok=True)
    shutil.copy(os.path.join(src, f"patch{n}.diff"), os.path.join(dst, "patch.diff"))
    for ext in ("rs", "sh"):
        p = os.path.join(src, f"demo{n}.{ext}")
        if os.path.exists(p):
            shutil.copy(p, os.path.join(dst, f"demo.{ext}"))
    meta = json.load(open(os.path.join(src, f"meta{n}.json")))
    meta.update({
        "seed_id": key,
        "property_targeted": prop,
        "source": "independent sub-agent given only the property text and a scratch worktree of /repo",
        "confirmed": r["verified"],
        "checks_run_quick": r.get("ran", []),
        "caught_by": r.get("caught_by", []),
        "not_caught_by": r.get("missed_by", []),
        "notes": r.get("notes", ""),
        "first_contact": r.get("first_contact", ""),
    })
    json.dump(meta, open(os.path.join(dst, "meta.json"), "w"), indent=1)
    print("imported", key)
