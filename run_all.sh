#!/bin/bash
# Runs every check of a tier once and prints exit status and wall time per check.
tier="${1:-quick}"
cd "$(dirname "$0")" || exit 2
rc=0
for id in $(python3 -c "import json;print(' '.join(c['property_id'] for c in json.load(open('MANIFEST.json'))['checks']))"); do
	start=$(date +%s)
	out=$(./check "$id" "$tier" 2>&1)
	code=$?
	end=$(date +%s)
	echo "$id exit=$code $((end - start))s $(echo "$out" | grep -E "^C[0-9]+ (quick|thorough):" | tail -1)"
	if [ $code -ne 0 ]; then
		echo "$out" | grep -E "VIOLATION|INCONCLUSIVE|INFRASTRUCTURE" | head -5
		rc=1
	fi
done
exit $rc
