//! Driver for the real `xt` binaries (built with hooks off from /repo).

use std::ffi::OsString;
use std::fs::File;
use std::io::{Read, Write};
use std::os::fd::{FromRawFd, OwnedFd};
use std::os::unix::process::ExitStatusExt;
use std::path::{Path, PathBuf};
use std::process::{Command, Stdio};
use std::time::{Duration, Instant};

use proptest::prelude::*;
use serde_json::{json, Value as J};

use crate::runner::*;
use crate::util::*;
use crate::xtapi::*;

#[derive(Clone, Copy, Debug, PartialEq)]
pub enum Bin {
    Debug,
    Release,
}

impl Bin {
    pub fn path(self) -> PathBuf {
        PathBuf::from(format!(
            "{}/.build/xt/{}/xt",
            crate::runner::verif_root(),
            match self {
                Bin::Debug => "debug",
                Bin::Release => "release",
            }
        ))
    }
    pub fn name(self) -> &'static str {
        match self {
            Bin::Debug => "debug",
            Bin::Release => "release",
        }
    }
    pub fn from_name(s: &str) -> Option<Bin> {
        match s {
            "debug" => Some(Bin::Debug),
            "release" => Some(Bin::Release),
            _ => None,
        }
    }
}

#[derive(Clone, Debug)]
pub enum StdinSpec {
    Null,
    Bytes(Vec<u8>),
    /// standard input redirected from a regular file whose offset is already
    /// at `offset` (as after `{ read line; xt; } < file`)
    FileAt(Vec<u8>, usize),
}

#[derive(Clone, Copy, Debug, PartialEq)]
pub enum StderrSpec {
    Pipe,
    DevFull,
    /// a pipe whose reader is already gone
    ClosedPipe,
    /// the same open file description as a StdoutSpec::File stdout ("> log 2>&1")
    SameAsStdoutFile,
}

#[derive(Clone, Debug)]
pub enum StdoutSpec {
    Pipe,
    File,
    DevFull,
    Pty,
    /// The consumer reads exactly `after` bytes, then closes the read end.
    ClosingPipe { after: usize, pipe_size: Option<usize> },
    /// A connected stream socket whose peer is gone before the child starts
    /// (closed with nothing unread, so that a write meets EPIPE, not ECONNRESET).
    ClosedSocket,
    /// A pipe in non-blocking mode that is already full and that nobody reads
    /// while the child runs: every write meets EAGAIN.
    FullNonBlockingPipe,
}

#[derive(Clone, Debug)]
pub struct Res {
    pub code: Option<i32>,
    pub signal: Option<i32>,
    pub stdout: Vec<u8>,
    pub stderr: Vec<u8>,
    pub timed_out: bool,
}

impl Res {
    pub fn status(&self) -> String {
        match (self.code, self.signal, self.timed_out) {
            (_, _, true) => "timeout".into(),
            (Some(c), _, _) => format!("exit {}", c),
            (_, Some(s), _) => format!("signal {}", s),
            _ => "unknown".into(),
        }
    }
    pub fn brief(&self) -> String {
        format!("{} stdout={:?} stderr={:?}", self.status(), brief_bytes(&self.stdout), brief_bytes(&self.stderr))
    }
}

/// A private scratch directory under /verif/.build/tmp (never /tmp).
pub struct Scratch {
    pub dir: PathBuf,
}

impl Scratch {
    pub fn new(tag: &str) -> Scratch {
        static N: std::sync::atomic::AtomicU64 = std::sync::atomic::AtomicU64::new(0);
        let n = N.fetch_add(1, std::sync::atomic::Ordering::SeqCst);
        let dir = PathBuf::from(format!("{}/.build/tmp/cli-{}-{}-{}", crate::runner::verif_root(), std::process::id(), tag, n));
        let _ = std::fs::remove_dir_all(&dir);
        std::fs::create_dir_all(&dir).expect("create scratch dir");
        Scratch { dir }
    }
    pub fn file(&self, name: &str, content: &[u8]) -> PathBuf {
        let p = self.dir.join(name);
        std::fs::write(&p, content).expect("write scratch file");
        p
    }
    pub fn fifo(&self, name: &str) -> PathBuf {
        let p = self.dir.join(name);
        let c = std::ffi::CString::new(p.to_str().unwrap()).unwrap();
        let rc = unsafe { libc::mkfifo(c.as_ptr(), 0o600) };
        assert_eq!(rc, 0, "mkfifo failed");
        p
    }
}

impl Drop for Scratch {
    fn drop(&mut self) {
        let _ = std::fs::remove_dir_all(&self.dir);
    }
}

fn make_pipe(size: Option<usize>) -> (OwnedFd, OwnedFd) {
    let mut fds = [0i32; 2];
    let rc = unsafe { libc::pipe2(fds.as_mut_ptr(), libc::O_CLOEXEC) };
    assert_eq!(rc, 0, "pipe2 failed");
    if let Some(s) = size {
        unsafe { libc::fcntl(fds[1], libc::F_SETPIPE_SZ, s as libc::c_int) };
    }
    unsafe { (OwnedFd::from_raw_fd(fds[0]), OwnedFd::from_raw_fd(fds[1])) }
}

fn open_pty() -> Option<(OwnedFd, OwnedFd)> {
    let mut master = 0i32;
    let mut slave = 0i32;
    let rc = unsafe { libc::openpty(&mut master, &mut slave, std::ptr::null_mut(), std::ptr::null(), std::ptr::null()) };
    if rc != 0 {
        return None;
    }
    unsafe {
        libc::fcntl(master, libc::F_SETFD, libc::FD_CLOEXEC);
        libc::fcntl(slave, libc::F_SETFD, libc::FD_CLOEXEC);
        Some((OwnedFd::from_raw_fd(master), OwnedFd::from_raw_fd(slave)))
    }
}

/// Files to feed into FIFOs while the child runs: (path, content).
pub type Fifos = Vec<(PathBuf, Vec<u8>)>;

pub fn run_xt(bin: Bin, args: &[OsString], cwd: &Path, stdin: StdinSpec, stdout: StdoutSpec, fifos: Fifos) -> Res {
    run_xt_limit(bin, args, cwd, stdin, stdout, fifos, 60)
}

pub fn run_xt_limit(bin: Bin, args: &[OsString], cwd: &Path, stdin: StdinSpec, stdout: StdoutSpec, fifos: Fifos, limit_secs: u64) -> Res {
    run_xt_full(bin, args, cwd, stdin, stdout, StderrSpec::Pipe, fifos, limit_secs)
}

#[allow(clippy::too_many_arguments)]
thread_local! {
    /// When set, the child starts with SIGPIPE blocked in its signal mask (as under
    /// some service managers and language runtimes).
    pub static BLOCK_SIGPIPE: std::cell::Cell<bool> = std::cell::Cell::new(false);
}

thread_local! {
    /// When set, the child's argv[0] (any bytes; the program run stays the same).
    pub static ARGV0_OVERRIDE: std::cell::RefCell<Option<Vec<u8>>> = std::cell::RefCell::new(None);
}

pub fn run_xt_full(bin: Bin, args: &[OsString], cwd: &Path, stdin: StdinSpec, stdout: StdoutSpec, stderr: StderrSpec, fifos: Fifos, limit_secs: u64) -> Res {
    let mut cmd = Command::new(bin.path());
    cmd.args(args).current_dir(cwd);
    ARGV0_OVERRIDE.with(|a| {
        if let Some(bytes) = a.borrow().as_ref() {
            use std::os::unix::ffi::OsStrExt;
            use std::os::unix::process::CommandExt;
            cmd.arg0(std::ffi::OsStr::from_bytes(bytes));
        }
    });
    match stderr {
        StderrSpec::Pipe => {
            cmd.stderr(Stdio::piped());
        }
        StderrSpec::DevFull => {
            cmd.stderr(std::fs::OpenOptions::new().write(true).open("/dev/full").expect("open /dev/full"));
        }
        StderrSpec::SameAsStdoutFile => {
            cmd.stderr(Stdio::null()); // replaced below, once the stdout file exists
        }
        StderrSpec::ClosedPipe => {
            let (r, w) = make_pipe(None);
            drop(r);
            cmd.stderr(Stdio::from(w));
        }
    }
    cmd.env_clear();
    // never leave an xt process behind when the harness itself is killed
    let block_sigpipe = BLOCK_SIGPIPE.with(|b| b.get());
    unsafe {
        use std::os::unix::process::CommandExt;
        cmd.pre_exec(move || {
            libc::prctl(libc::PR_SET_PDEATHSIG, libc::SIGKILL);
            if block_sigpipe {
                let mut set: libc::sigset_t = std::mem::zeroed();
                libc::sigemptyset(&mut set);
                libc::sigaddset(&mut set, libc::SIGPIPE);
                libc::sigprocmask(libc::SIG_BLOCK, &set, std::ptr::null_mut());
            }
            Ok(())
        });
    }
    match &stdin {
        StdinSpec::Null => {
            cmd.stdin(Stdio::null());
        }
        StdinSpec::Bytes(_) => {
            cmd.stdin(Stdio::piped());
        }
        StdinSpec::FileAt(bytes, offset) => {
            use std::io::{Seek, SeekFrom};
            let p = cwd.join("stdin.redirect");
            std::fs::write(&p, bytes).expect("write stdin file");
            let mut f = File::open(&p).expect("open stdin file");
            f.seek(SeekFrom::Start(*offset as u64)).expect("seek stdin file");
            cmd.stdin(Stdio::from(f));
        }
    }
    let out_file_path = cwd.join("stdout.capture");
    let mut reader_fd: Option<OwnedFd> = None;
    let mut closing: Option<usize> = None;
    let mut pty_master: Option<OwnedFd> = None;
    // kept open (and unread) until the child is gone
    let mut full_pipe_reader: Option<OwnedFd> = None;
    match &stdout {
        StdoutSpec::Pipe => {
            cmd.stdout(Stdio::piped());
        }
        StdoutSpec::File => {
            let f = File::create(&out_file_path).expect("create stdout file");
            if stderr == StderrSpec::SameAsStdoutFile {
                cmd.stderr(f.try_clone().expect("dup stdout file"));
            }
            cmd.stdout(f);
        }
        StdoutSpec::DevFull => {
            cmd.stdout(std::fs::OpenOptions::new().write(true).open("/dev/full").expect("open /dev/full"));
        }
        StdoutSpec::Pty => {
            let (m, s) = open_pty().expect("openpty");
            cmd.stdout(Stdio::from(s));
            pty_master = Some(m);
        }
        StdoutSpec::ClosingPipe { after, pipe_size } => {
            let (r, w) = make_pipe(*pipe_size);
            cmd.stdout(Stdio::from(w));
            reader_fd = Some(r);
            closing = Some(*after);
        }
        StdoutSpec::ClosedSocket => {
            let mut fds = [0i32; 2];
            let rc = unsafe { libc::socketpair(libc::AF_UNIX, libc::SOCK_STREAM | libc::SOCK_CLOEXEC, 0, fds.as_mut_ptr()) };
            assert_eq!(rc, 0, "socketpair failed");
            let (peer, ours) = unsafe { (OwnedFd::from_raw_fd(fds[0]), OwnedFd::from_raw_fd(fds[1])) };
            drop(peer);
            cmd.stdout(Stdio::from(ours));
        }
        StdoutSpec::FullNonBlockingPipe => {
            let (r, w) = make_pipe(Some(4096));
            unsafe {
                let fd = std::os::fd::AsRawFd::as_raw_fd(&w);
                let flags = libc::fcntl(fd, libc::F_GETFL);
                libc::fcntl(fd, libc::F_SETFL, flags | libc::O_NONBLOCK);
                let chunk = [b'#'; 1024];
                loop {
                    let n = libc::write(fd, chunk.as_ptr() as *const libc::c_void, chunk.len());
                    if n <= 0 {
                        break;
                    }
                }
            }
            cmd.stdout(Stdio::from(w));
            full_pipe_reader = Some(r);
        }
    }
    let mut child = cmd.spawn().expect("spawn xt");
    drop(cmd); // closes our copies of the child's stdout ends
    let mut threads = vec![];
    if let StdinSpec::Bytes(b) = stdin {
        let mut w = child.stdin.take().unwrap();
        threads.push(std::thread::spawn(move || {
            let _ = w.write_all(&b);
        }));
    }
    let child_done = std::sync::Arc::new(std::sync::atomic::AtomicBool::new(false));
    for (path, content) in fifos {
        let child_done = child_done.clone();
        threads.push(std::thread::spawn(move || {
            // Opening blocks until the child opens the FIFO for reading; give up
            // if the child never does (it may exit first): open non-blocking in
            // a retry loop.
            let start = Instant::now();
            let c = std::ffi::CString::new(path.to_str().unwrap()).unwrap();
            loop {
                let fd = unsafe { libc::open(c.as_ptr(), libc::O_WRONLY | libc::O_NONBLOCK | libc::O_CLOEXEC) };
                if fd >= 0 {
                    unsafe {
                        let flags = libc::fcntl(fd, libc::F_GETFL);
                        libc::fcntl(fd, libc::F_SETFL, flags & !libc::O_NONBLOCK);
                    }
                    let mut f = unsafe { File::from_raw_fd(fd) };
                    let _ = f.write_all(&content);
                    break;
                }
                // the child is gone (it failed before it got to this input), or never opens it
                if child_done.load(std::sync::atomic::Ordering::Relaxed) || start.elapsed() > Duration::from_secs(20) {
                    break;
                }
                std::thread::sleep(Duration::from_millis(1));
            }
        }));
    }
    let stdout_thread = child.stdout.take().map(|mut o| {
        std::thread::spawn(move || {
            let mut v = vec![];
            let _ = o.read_to_end(&mut v);
            v
        })
    });
    let stderr_thread = child.stderr.take().map(|mut stderr_pipe| {
        std::thread::spawn(move || {
            let mut v = vec![];
            let _ = stderr_pipe.read_to_end(&mut v);
            v
        })
    });
    let mut consumed = vec![];
    if let (Some(fd), Some(after)) = (reader_fd.take(), closing) {
        let mut f = File::from(fd);
        let mut buf = vec![0u8; 65536];
        while consumed.len() < after {
            let want = (after - consumed.len()).min(buf.len());
            match f.read(&mut buf[..want]) {
                Ok(0) => break,
                Ok(n) => consumed.extend_from_slice(&buf[..n]),
                Err(_) => break,
            }
        }
        drop(f); // the consumer goes away
    }
    let pty_thread = pty_master.map(|m| {
        std::thread::spawn(move || {
            let mut f = File::from(m);
            let mut v = vec![];
            let mut buf = [0u8; 4096];
            loop {
                match f.read(&mut buf) {
                    Ok(0) | Err(_) => break,
                    Ok(n) => v.extend_from_slice(&buf[..n]),
                }
            }
            v
        })
    });
    // wait with a timeout
    let start = Instant::now();
    let mut timed_out = false;
    let status = loop {
        match child.try_wait() {
            Ok(Some(s)) => break Some(s),
            Ok(None) => {
                if start.elapsed() > Duration::from_secs(limit_secs) {
                    let _ = child.kill();
                    let _ = child.wait();
                    timed_out = true;
                    break None;
                }
                std::thread::sleep(Duration::from_micros(300));
            }
            Err(_) => break None,
        }
    };
    child_done.store(true, std::sync::atomic::Ordering::Relaxed);
    drop(full_pipe_reader.take());
    let mut stdout_bytes = stdout_thread.map(|t| t.join().unwrap_or_default()).unwrap_or_default();
    let stderr_bytes = stderr_thread.map(|t| t.join().unwrap_or_default()).unwrap_or_default();
    if let Some(t) = pty_thread {
        stdout_bytes = t.join().unwrap_or_default();
    }
    if matches!(stdout, StdoutSpec::File) {
        stdout_bytes = std::fs::read(&out_file_path).unwrap_or_default();
        let _ = std::fs::remove_file(&out_file_path);
    }
    if closing.is_some() {
        stdout_bytes = consumed;
    }
    for t in threads {
        let _ = t.join();
    }
    Res {
        code: status.and_then(|s| s.code()),
        signal: status.and_then(|s| s.signal()),
        stdout: stdout_bytes,
        stderr: stderr_bytes,
        timed_out,
    }
}

pub fn os(args: &[&str]) -> Vec<OsString> {
    args.iter().map(OsString::from).collect()
}

// ---------------------------------------------------------------------------
// C02: file (mmap) vs stdin vs FIFO through the real binary

fn c02_cli_case(bytes: &[u8], from: Option<Fmt>, to: Fmt, bin: Bin, rec: &mut Recorder) -> Result<(), String> {
    let sc = Scratch::new("c02");
    let mut base: Vec<OsString> = vec![];
    if let Some(f) = from {
        base.push("-f".into());
        base.push(f.name().into());
    }
    base.push("-t".into());
    base.push(to.name().into());
    let file = sc.file("input.dat", bytes);
    let fifo = sc.fifo("input.fifo");
    let mut a1 = base.clone();
    a1.push(file.clone().into());
    let r_file = run_xt(bin, &a1, &sc.dir, StdinSpec::Null, StdoutSpec::Pipe, vec![]);
    let r_stdin = run_xt(bin, &base, &sc.dir, StdinSpec::Bytes(bytes.to_vec()), StdoutSpec::Pipe, vec![]);
    let mut a3 = base.clone();
    a3.push(fifo.clone().into());
    let r_fifo = run_xt(bin, &a3, &sc.dir, StdinSpec::Null, StdoutSpec::Pipe, vec![(fifo, bytes.to_vec())]);
    for r in [&r_file, &r_stdin, &r_fifo] {
        if r.timed_out {
            rec.notes.push("cli run timed out (inconclusive)".into());
            return Ok(());
        }
    }
    rec.count(Some(hash_bytes(&[bytes, opt_name(from).as_bytes(), to.name().as_bytes(), bin.name().as_bytes()])));
    rec.class(&format!("cli_status:{}", r_file.status()));
    let pairs = [("file", &r_file, "stdin", &r_stdin), ("file", &r_file, "fifo", &r_fifo), ("stdin", &r_stdin, "fifo", &r_fifo)];
    for (na, a, nb, b) in pairs {
        let bad = if a.code != b.code || a.signal != b.signal {
            Some(format!("{}: {} vs {}: {}", na, a.brief(), nb, b.brief()))
        } else if a.code == Some(0) && a.stdout != b.stdout {
            Some(format!("both exit 0 but stdout differs: {} {:?} vs {} {:?}", na, brief_bytes(&a.stdout), nb, brief_bytes(&b.stdout)))
        } else if !prefix_comparable(&a.stdout, &b.stdout) {
            Some(format!("partial outputs not prefix-comparable: {} {:?} vs {} {:?}", na, brief_bytes(&a.stdout), nb, brief_bytes(&b.stdout)))
        } else {
            None
        };
        if let Some(msg) = bad {
            // known classes are decided by the in-process oracle on the same input
            if let Ok((Some(k), _, _)) = crate::checks::c02::diff_supply(bytes, from, to, &crate::sio::Sched::Full, "C02") {
                rec.known(k);
                return Ok(());
            }
            return Err(format!("[cli {} {} -> {}] {}", bin.name(), opt_name(from), to.name(), msg));
        }
    }
    rec.sample(|| json!({"cli": true, "from": opt_name(from), "to": to.name(), "bin": bin.name(), "input": brief_bytes(bytes), "status": r_file.status()}));
    Ok(())
}

pub fn c02_cli_unit(unit: &Unit, _shard: u32, seed: u64, tier: Tier, rec: &mut Recorder) {
    let _ = unit;
    let strat = (
        crate::corpus::bytes_strategy().prop_flat_map(|b| {
            let origin = b.origin;
            (Just(b), crate::checks::c02::from_for(origin))
        }),
        crate::checks::c01::fmt_strategy(),
        any::<bool>(),
    );
    run_prop(
        rec,
        seed,
        tier.pick(100, 600),
        strat,
        |((b, from), to, dbg)| json!({"unit": "cli", "bytes": hex(&b.bytes), "text": brief_bytes(&b.bytes), "from": opt_name(*from), "to": to.name(), "bin": if *dbg { "debug" } else { "release" }}),
        |((b, from), to, dbg), r| c02_cli_case(&b.bytes, *from, *to, if *dbg { Bin::Debug } else { Bin::Release }, r),
    );
}

pub fn c02_cli_replay(case: &J) -> Result<(), String> {
    let bytes = unhex(case["bytes"].as_str().ok_or("no bytes")?).ok_or("bad hex")?;
    let from = opt_from_name(case["from"].as_str().ok_or("no from")?).ok_or("bad from")?;
    let to = Fmt::from_name(case["to"].as_str().ok_or("no to")?).ok_or("bad to")?;
    let bin = Bin::from_name(case["bin"].as_str().unwrap_or("release")).ok_or("bad bin")?;
    let mut rec = Recorder::default();
    c02_cli_case(&bytes, from, to, bin, &mut rec)
}
