//! Bodies of the libFuzzer targets (/verif/fuzz): the bytes are decoded into
//! structured arguments (source selection, target, read schedule, reader plan,
//! payload) and handed to the SAME oracle functions the proptest checks use, so
//! that coverage-guided search looks for property violations, not just crashes.

use crate::runner::Recorder;
use crate::sio::Sched;
use crate::xtapi::*;

struct Cursor<'a> {
    d: &'a [u8],
}

impl<'a> Cursor<'a> {
    fn byte(&mut self) -> u8 {
        match self.d.split_first() {
            Some((b, rest)) => {
                self.d = rest;
                *b
            }
            None => 0,
        }
    }
    fn sched(&mut self) -> Sched {
        match self.byte() % 6 {
            0 => Sched::Full,
            1 => Sched::Fixed(1),
            2 => Sched::Fixed(2 + (self.byte() % 30) as usize),
            3 => Sched::Fixed([4095usize, 4096, 4097, 8191, 8192, 8193][(self.byte() % 6) as usize]),
            4 => {
                let n = 1 + (self.byte() % 5) as usize;
                Sched::Sizes((0..n).map(|_| 1 + (self.byte() % 40) as usize).collect())
            }
            _ => {
                let n = (self.byte() % 6) as usize;
                let mut cuts: Vec<usize> = (0..n).map(|_| self.byte() as usize * 3).collect();
                cuts.sort();
                cuts.dedup();
                Sched::Cuts(cuts)
            }
        }
    }
    fn from(&mut self) -> Option<Fmt> {
        match self.byte() % 6 {
            0 | 1 => None,
            2 => Some(Fmt::Json),
            3 => Some(Fmt::Msgpack),
            4 => Some(Fmt::Toml),
            _ => Some(Fmt::Yaml),
        }
    }
    fn to(&mut self) -> Fmt {
        FORMATS[(self.byte() % 4) as usize]
    }
}

fn report(property: &str, msg: String, case: serde_json::Value) -> ! {
    let p = crate::runner::write_replay(property, &msg, &case);
    println!("{}", msg);
    println!("VIOLATION property={} replay={}", property, p.display());
    std::process::abort();
}

pub fn run(target: &str, data: &[u8]) {
    static HOOK: std::sync::Once = std::sync::Once::new();
    HOOK.call_once(crate::xtapi::install_panic_hook);
    if data.len() < 4 {
        return;
    }
    let mut c = Cursor { d: data };
    match target {
        "diff_supply" => {
            let (from, to, sched) = (c.from(), c.to(), c.sched());
            let payload = c.d;
            if let Err(m) = crate::checks::c02::diff_supply(payload, from, to, &sched, "C02") {
                report("C02", format!("[{} -> {}] {}", opt_name(from), to.name(), m), crate::checks::c02::case_json("fuzz", payload, from, &sched, Some(to)));
            }
        }
        "total" => {
            let (from, to, sched) = (c.from(), c.to(), c.sched());
            let payload = c.d;
            if let Err(m) = crate::checks::c04::total(payload, from, to, &sched) {
                report("C04", m, crate::checks::c02::case_json("fuzz", payload, from, &sched, Some(to)));
            }
        }
        "detect_transparent" => {
            let sched = c.sched();
            let payload = c.d;
            let mut rec = Recorder::default();
            if let Err(m) = crate::checks::c09::check_bytes(payload, "fuzz", &sched, &mut rec) {
                report("C09", m, crate::checks::c02::case_json("gen", payload, None, &sched, None));
            }
        }
        "yaml_mem" => {
            use crate::checks::c17::{Case, Plan};
            let sched = c.sched();
            let plan = match c.byte() % 4 {
                0 | 1 => Plan::Plain,
                2 => Plan::FailAt(u16::from_le_bytes([c.byte(), c.byte()])),
                _ => Plan::OverReport { excess: [1usize, 3, 100, 70_000, usize::MAX / 2][(c.byte() % 5) as usize], on: if c.byte() % 2 == 0 { None } else { Some((c.byte() % 6) as usize) } },
            };
            let entry = c.byte() % 5;
            let to = c.to();
            let limit = (c.byte() % 4) as usize;
            let read_size = [1usize, 3, 64, 8192][(c.byte() % 4) as usize];
            let case = Case { bytes: c.d.to_vec(), sched, plan, entry, to, limit, read_size };
            let mut rec = Recorder::default();
            if let Err(m) = crate::checks::c17::check_case(&case, &mut rec) {
                report("C17", m, case.to_json());
            }
        }
        other => panic!("unknown fuzz target {}", other),
    }
}


/// Writes a deterministic seed corpus for a fuzz target: structured prefix
/// bytes followed by small valid inputs (fixtures, writer output, token
/// sequences). `xtv fuzz-corpus <target> <dir>`.
pub fn write_corpus(target: &str, dir: &std::path::Path) -> std::io::Result<usize> {
    use crate::model::Val;
    use crate::util::Style;
    std::fs::create_dir_all(dir)?;
    let mut payloads: Vec<Vec<u8>> = vec![];
    for (_, b) in crate::corpus::fixtures() {
        if b.len() <= 4096 {
            payloads.push(b);
        }
    }
    let docs = [
        Val::Map(vec![(Val::s("a"), Val::Seq(vec![Val::Int(1), Val::Float(2.5), Val::s("x"), Val::Null])), (Val::s("b"), Val::Map(vec![(Val::s("c"), Val::Bool(true))]))]),
        Val::Seq(vec![Val::s("1e3"), Val::Int(u64::MAX as i128), Val::Int(i64::MIN as i128)]),
        Val::Map(vec![]),
        Val::s("scalar"),
    ];
    for f in FORMATS {
        for d in &docs {
            let d = crate::oracle::project_source(d.clone(), f);
            if crate::oracle::writable(&d, f) {
                for style in [Style::canonical(), Style { tape: vec![200, 17, 99, 255, 3, 128], cyclic: true }] {
                    payloads.push(crate::oracle::write_source(&d, f, &style).0);
                }
            }
        }
        for i in (0..crate::corpus::token_seq_count(f, 2)).step_by(37) {
            payloads.push(crate::corpus::token_seq(f, i));
        }
    }
    payloads.push(b"a: 1\n---\n- b\n...\n".to_vec());
    payloads.push(crate::checks::c07::encode_text("k: [1, \u{e9}]\n", "utf-16le", true));
    payloads.push(crate::checks::c07::encode_text("k: v\n", "utf-32be", false));
    let prefixes: &[&[u8]] = match target {
        "detect_transparent" => &[&[0], &[1], &[4, 2, 3, 7]],
        "yaml_mem" => &[&[0, 0, 0, 0, 0, 2], &[1, 2, 9, 9, 1, 1, 1, 0], &[1, 3, 2, 1, 2, 0, 0, 3], &[0, 0, 2, 0, 1, 0], &[3, 0, 3, 0, 0, 0]],
        _ => &[&[0, 0, 0], &[0, 1, 1], &[2, 0, 1], &[3, 2, 0], &[4, 0, 1], &[5, 3, 1], &[5, 0, 4, 2, 3, 5]],
    };
    let mut n = 0;
    for (i, p) in payloads.iter().enumerate() {
        for (j, pre) in prefixes.iter().enumerate() {
            if (i + j) % prefixes.len() > 1 {
                continue;
            }
            let mut data = pre.to_vec();
            data.extend_from_slice(p);
            std::fs::write(dir.join(format!("seed-{:04}-{}", i, j)), data)?;
            n += 1;
        }
    }
    Ok(n)
}
