//! Independent MessagePack decoder written for the harness.

use crate::model::Val;

pub struct D<'a> {
    pub b: &'a [u8],
    pub i: usize,
}

impl<'a> D<'a> {
    fn take(&mut self, n: usize) -> Result<&'a [u8], String> {
        if self.b.len() - self.i < n {
            return Err(format!("truncated at byte {}", self.i));
        }
        let s = &self.b[self.i..self.i + n];
        self.i += n;
        Ok(s)
    }
    fn u(&mut self, n: usize) -> Result<u64, String> {
        let s = self.take(n)?;
        let mut v = 0u64;
        for x in s {
            v = (v << 8) | *x as u64;
        }
        Ok(v)
    }
    fn str_(&mut self, n: usize) -> Result<Val, String> {
        let s = self.take(n)?;
        match std::str::from_utf8(s) {
            Ok(t) => Ok(Val::Str(t.to_string())),
            Err(_) => Ok(Val::Bytes(s.to_vec())), // invalid UTF-8 str: keep the bytes
        }
    }
    fn seq(&mut self, n: usize, depth: usize) -> Result<Val, String> {
        let mut v = Vec::with_capacity(n.min(4096));
        for _ in 0..n {
            v.push(self.value(depth + 1)?);
        }
        Ok(Val::Seq(v))
    }
    fn map(&mut self, n: usize, depth: usize) -> Result<Val, String> {
        let mut v = Vec::with_capacity(n.min(4096));
        for _ in 0..n {
            let k = self.value(depth + 1)?;
            let x = self.value(depth + 1)?;
            v.push((k, x));
        }
        Ok(Val::Map(v))
    }
    fn ext(&mut self, n: usize) -> Result<Val, String> {
        let t = self.take(1)?[0] as i8;
        Ok(Val::Ext(t, self.take(n)?.to_vec()))
    }

    pub fn value(&mut self, depth: usize) -> Result<Val, String> {
        if depth > 3000 {
            return Err("too deep".into());
        }
        let m = self.take(1)?[0];
        Ok(match m {
            0x00..=0x7f => Val::Int(m as i128),
            0x80..=0x8f => self.map((m & 0x0f) as usize, depth)?,
            0x90..=0x9f => self.seq((m & 0x0f) as usize, depth)?,
            0xa0..=0xbf => self.str_((m & 0x1f) as usize)?,
            0xc0 => Val::Null,
            0xc1 => return Err("reserved marker".into()),
            0xc2 => Val::Bool(false),
            0xc3 => Val::Bool(true),
            0xc4 => {
                let n = self.u(1)? as usize;
                Val::Bytes(self.take(n)?.to_vec())
            }
            0xc5 => {
                let n = self.u(2)? as usize;
                Val::Bytes(self.take(n)?.to_vec())
            }
            0xc6 => {
                let n = self.u(4)? as usize;
                Val::Bytes(self.take(n)?.to_vec())
            }
            0xc7 => {
                let n = self.u(1)? as usize;
                self.ext(n)?
            }
            0xc8 => {
                let n = self.u(2)? as usize;
                self.ext(n)?
            }
            0xc9 => {
                let n = self.u(4)? as usize;
                self.ext(n)?
            }
            0xca => Val::F32(f32::from_bits(self.u(4)? as u32)),
            0xcb => Val::Float(f64::from_bits(self.u(8)?)),
            0xcc => Val::Int(self.u(1)? as i128),
            0xcd => Val::Int(self.u(2)? as i128),
            0xce => Val::Int(self.u(4)? as i128),
            0xcf => Val::Int(self.u(8)? as i128),
            0xd0 => Val::Int(self.u(1)? as u8 as i8 as i128),
            0xd1 => Val::Int(self.u(2)? as u16 as i16 as i128),
            0xd2 => Val::Int(self.u(4)? as u32 as i32 as i128),
            0xd3 => Val::Int(self.u(8)? as i64 as i128),
            0xd4 => self.ext(1)?,
            0xd5 => self.ext(2)?,
            0xd6 => self.ext(4)?,
            0xd7 => self.ext(8)?,
            0xd8 => self.ext(16)?,
            0xd9 => {
                let n = self.u(1)? as usize;
                self.str_(n)?
            }
            0xda => {
                let n = self.u(2)? as usize;
                self.str_(n)?
            }
            0xdb => {
                let n = self.u(4)? as usize;
                self.str_(n)?
            }
            0xdc => {
                let n = self.u(2)? as usize;
                self.seq(n, depth)?
            }
            0xdd => {
                let n = self.u(4)? as usize;
                self.seq(n, depth)?
            }
            0xde => {
                let n = self.u(2)? as usize;
                self.map(n, depth)?
            }
            0xdf => {
                let n = self.u(4)? as usize;
                self.map(n, depth)?
            }
            0xe0..=0xff => Val::Int(m as i8 as i128),
        })
    }
}

/// Back-to-back values until the input is exhausted.
pub fn read_stream(b: &[u8]) -> Result<Vec<Val>, String> {
    let mut d = D { b, i: 0 };
    let mut out = vec![];
    while d.i < b.len() {
        out.push(d.value(0)?);
    }
    Ok(out)
}

/// Size of the first value, by this decoder.
pub fn first_value_size(b: &[u8]) -> Result<usize, String> {
    let mut d = D { b, i: 0 };
    d.value(0)?;
    Ok(d.i)
}
