//! Independent YAML reader: libyaml event stream (used directly) plus a
//! harness-side implementation of YAML 1.2 core-schema scalar resolution.

use std::collections::HashMap;
use std::mem::MaybeUninit;

use unsafe_libyaml::*;

use crate::model::Val;

#[derive(Debug)]
pub struct YamlDocs {
    pub docs: Vec<Val>,
    /// For each document: was it introduced by an explicit `---`?
    pub explicit_start: Vec<bool>,
}

/// Resolves a plain scalar per the YAML 1.2 core schema.
pub fn resolve_plain(s: &str) -> Val {
    match s {
        "" | "~" | "null" | "Null" | "NULL" => return Val::Null,
        "true" | "True" | "TRUE" => return Val::Bool(true),
        "false" | "False" | "FALSE" => return Val::Bool(false),
        ".inf" | ".Inf" | ".INF" | "+.inf" | "+.Inf" | "+.INF" => return Val::Float(f64::INFINITY),
        "-.inf" | "-.Inf" | "-.INF" => return Val::Float(f64::NEG_INFINITY),
        ".nan" | ".NaN" | ".NAN" => return Val::Float(f64::NAN),
        _ => {}
    }
    let b = s.as_bytes();
    // int: [-+]?[0-9]+ | 0o[0-7]+ | 0x[0-9a-fA-F]+
    let (sign_len, neg) = match b[0] {
        b'-' => (1, true),
        b'+' => (1, false),
        _ => (0, false),
    };
    let digits = &s[sign_len..];
    if !digits.is_empty() && digits.bytes().all(|c| c.is_ascii_digit()) {
        return match digits.parse::<i128>() {
            Ok(mag) => {
                let v = if neg { -mag } else { mag };
                if v >= i64::MIN as i128 && v <= u64::MAX as i128 {
                    Val::Int(v)
                } else {
                    Val::Ext(-1, s.as_bytes().to_vec()) // integer outside the model
                }
            }
            Err(_) => Val::Ext(-1, s.as_bytes().to_vec()),
        };
    }
    if let Some(oct) = s.strip_prefix("0o") {
        if !oct.is_empty() && oct.bytes().all(|c| (b'0'..=b'7').contains(&c)) {
            return match i128::from_str_radix(oct, 8) {
                Ok(v) if v <= u64::MAX as i128 => Val::Int(v),
                _ => Val::Ext(-1, s.as_bytes().to_vec()),
            };
        }
    }
    if let Some(hex) = s.strip_prefix("0x") {
        if !hex.is_empty() && hex.bytes().all(|c| c.is_ascii_hexdigit()) {
            return match i128::from_str_radix(hex, 16) {
                Ok(v) if v <= u64::MAX as i128 => Val::Int(v),
                _ => Val::Ext(-1, s.as_bytes().to_vec()),
            };
        }
    }
    // float: [-+]?(\.[0-9]+|[0-9]+(\.[0-9]*)?)([eE][-+]?[0-9]+)?
    if is_core_float(s) {
        let t = s.strip_prefix('+').unwrap_or(s);
        // Rust's parser accepts everything the regex does except a bare
        // trailing '.', e.g. "1." which it does accept; so parse directly.
        if let Ok(f) = t.parse::<f64>() {
            return Val::Float(f);
        }
    }
    Val::Str(s.to_string())
}

pub fn is_core_float(s: &str) -> bool {
    let b = s.as_bytes();
    let mut i = 0;
    if i < b.len() && (b[i] == b'-' || b[i] == b'+') {
        i += 1;
    }
    let start = i;
    if i < b.len() && b[i] == b'.' {
        i += 1;
        let d = i;
        while i < b.len() && b[i].is_ascii_digit() {
            i += 1;
        }
        if i == d {
            return false;
        }
    } else {
        while i < b.len() && b[i].is_ascii_digit() {
            i += 1;
        }
        if i == start {
            return false;
        }
        if i < b.len() && b[i] == b'.' {
            i += 1;
            while i < b.len() && b[i].is_ascii_digit() {
                i += 1;
            }
        }
    }
    if i < b.len() && (b[i] == b'e' || b[i] == b'E') {
        i += 1;
        if i < b.len() && (b[i] == b'-' || b[i] == b'+') {
            i += 1;
        }
        let d = i;
        while i < b.len() && b[i].is_ascii_digit() {
            i += 1;
        }
        if i == d {
            return false;
        }
    }
    i == b.len()
}

struct Ev {
    ty: yaml_event_type_t,
    anchor: Option<Vec<u8>>,
    tag: Option<String>,
    value: Vec<u8>,
    plain: bool,
    implicit: bool,
}

unsafe fn cstr(p: *const u8) -> Option<Vec<u8>> {
    if p.is_null() {
        return None;
    }
    let mut n = 0;
    while *p.add(n) != 0 {
        n += 1;
    }
    Some(std::slice::from_raw_parts(p, n).to_vec())
}

/// What libyaml itself reports for a UTF-8 text it rejects (reader, scanner or
/// parser level), with the positions exactly as libyaml gives them.
#[derive(Clone, Debug)]
pub struct LibyamlProblem {
    pub problem: String,
    pub line: u64,
    pub column: u64,
    pub index: u64,
    pub offset: u64,
    pub context: Option<String>,
    pub context_line: u64,
    pub context_column: u64,
}

/// Drives libyaml over the whole text (events only, no resolution) and returns
/// its problem report, or None when libyaml accepts the stream.
pub fn libyaml_problem(text: &[u8]) -> Option<LibyamlProblem> {
    unsafe {
        let mut parser = MaybeUninit::<yaml_parser_t>::uninit();
        if yaml_parser_initialize(parser.as_mut_ptr()).fail {
            return None;
        }
        let parser = parser.as_mut_ptr();
        yaml_parser_set_encoding(parser, yaml_encoding_t::YAML_UTF8_ENCODING);
        yaml_parser_set_input_string(parser, text.as_ptr(), text.len() as u64);
        loop {
            let mut event = MaybeUninit::<yaml_event_t>::uninit();
            if yaml_parser_parse(parser, event.as_mut_ptr()).fail {
                let pr: &yaml_parser_t = &*parser;
                let s = |p: *const i8| cstr(p as *const u8).map(|b| String::from_utf8_lossy(&b).into_owned());
                let out = LibyamlProblem {
                    problem: s(pr.problem as *const i8).unwrap_or_default(),
                    line: pr.problem_mark.line,
                    column: pr.problem_mark.column,
                    index: pr.problem_mark.index,
                    offset: pr.problem_offset,
                    context: s(pr.context as *const i8),
                    context_line: pr.context_mark.line,
                    context_column: pr.context_mark.column,
                };
                yaml_parser_delete(parser);
                return Some(out);
            }
            let e = event.as_mut_ptr();
            let ty = (*e).type_;
            yaml_event_delete(e);
            if ty == yaml_event_type_t::YAML_STREAM_END_EVENT {
                yaml_parser_delete(parser);
                return None;
            }
        }
    }
}

/// Parses the whole UTF-8 text into events. Returns Err(message) on a parser
/// error.
fn events(text: &[u8]) -> Result<Vec<Ev>, String> {
    let mut out = vec![];
    unsafe {
        let mut parser = MaybeUninit::<yaml_parser_t>::uninit();
        if yaml_parser_initialize(parser.as_mut_ptr()).fail {
            return Err("libyaml init failed".into());
        }
        let parser = parser.as_mut_ptr();
        yaml_parser_set_encoding(parser, yaml_encoding_t::YAML_UTF8_ENCODING);
        yaml_parser_set_input_string(parser, text.as_ptr(), text.len() as u64);
        loop {
            let mut event = MaybeUninit::<yaml_event_t>::uninit();
            if yaml_parser_parse(parser, event.as_mut_ptr()).fail {
                let pr: &yaml_parser_t = &*parser;
                let msg = cstr(pr.problem as *const u8)
                    .map(|b| String::from_utf8_lossy(&b).into_owned())
                    .unwrap_or_else(|| "unknown".into());
                let line = pr.problem_mark.line;
                yaml_parser_delete(parser);
                return Err(format!("{} (line {})", msg, line + 1));
            }
            let e = event.as_mut_ptr();
            let ty = (*e).type_;
            let mut ev = Ev { ty, anchor: None, tag: None, value: vec![], plain: false, implicit: true };
            match ty {
                yaml_event_type_t::YAML_SCALAR_EVENT => {
                    let d = &(*e).data.scalar;
                    ev.anchor = cstr(d.anchor);
                    ev.tag = cstr(d.tag).map(|b| String::from_utf8_lossy(&b).into_owned());
                    ev.value = std::slice::from_raw_parts(d.value, d.length as usize).to_vec();
                    ev.plain = d.style == yaml_scalar_style_t::YAML_PLAIN_SCALAR_STYLE;
                }
                yaml_event_type_t::YAML_SEQUENCE_START_EVENT => {
                    let d = &(*e).data.sequence_start;
                    ev.anchor = cstr(d.anchor);
                    ev.tag = cstr(d.tag).map(|b| String::from_utf8_lossy(&b).into_owned());
                }
                yaml_event_type_t::YAML_MAPPING_START_EVENT => {
                    let d = &(*e).data.mapping_start;
                    ev.anchor = cstr(d.anchor);
                    ev.tag = cstr(d.tag).map(|b| String::from_utf8_lossy(&b).into_owned());
                }
                yaml_event_type_t::YAML_ALIAS_EVENT => {
                    ev.anchor = cstr((*e).data.alias.anchor);
                }
                yaml_event_type_t::YAML_DOCUMENT_START_EVENT => {
                    ev.implicit = (*e).data.document_start.implicit;
                }
                _ => {}
            }
            yaml_event_delete(e);
            let end = ty == yaml_event_type_t::YAML_STREAM_END_EVENT;
            out.push(ev);
            if end {
                break;
            }
        }
        yaml_parser_delete(parser);
    }
    Ok(out)
}

struct Builder<'a> {
    evs: &'a [Ev],
    pos: usize,
    anchors: HashMap<Vec<u8>, Val>,
    budget: usize,
}

impl<'a> Builder<'a> {
    fn node(&mut self) -> Result<Val, String> {
        let ev = &self.evs[self.pos];
        self.pos += 1;
        if self.budget == 0 {
            return Err("alias expansion budget exceeded".into());
        }
        self.budget -= 1;
        use yaml_event_type_t::*;
        match ev.ty {
            YAML_ALIAS_EVENT => {
                let name = ev.anchor.clone().unwrap_or_default();
                let v = self.anchors.get(&name).cloned().ok_or_else(|| "unknown anchor".to_string())?;
                let n = v.node_count();
                if n > self.budget {
                    return Err("alias expansion budget exceeded".into());
                }
                self.budget -= n;
                Ok(v)
            }
            YAML_SCALAR_EVENT => {
                let text = String::from_utf8(ev.value.clone()).map_err(|_| "scalar not UTF-8".to_string())?;
                let v = match ev.tag.as_deref() {
                    None | Some("?") => {
                        if ev.plain {
                            resolve_plain(&text)
                        } else {
                            Val::Str(text)
                        }
                    }
                    Some("!") | Some("tag:yaml.org,2002:str") => Val::Str(text),
                    Some("tag:yaml.org,2002:null") => Val::Null,
                    Some("tag:yaml.org,2002:bool") | Some("tag:yaml.org,2002:int") | Some("tag:yaml.org,2002:float") => {
                        resolve_plain(&text)
                    }
                    Some(t) => return Err(format!("unsupported tag {}", t)),
                };
                if let Some(a) = &ev.anchor {
                    self.anchors.insert(a.clone(), v.clone());
                }
                Ok(v)
            }
            YAML_SEQUENCE_START_EVENT => {
                if let Some(t) = &ev.tag {
                    if t != "tag:yaml.org,2002:seq" && t != "!" {
                        return Err(format!("unsupported tag {}", t));
                    }
                }
                let anchor = ev.anchor.clone();
                let mut items = vec![];
                while self.evs[self.pos].ty != YAML_SEQUENCE_END_EVENT {
                    items.push(self.node()?);
                }
                self.pos += 1;
                let v = Val::Seq(items);
                if let Some(a) = anchor {
                    self.anchors.insert(a, v.clone());
                }
                Ok(v)
            }
            YAML_MAPPING_START_EVENT => {
                if let Some(t) = &ev.tag {
                    if t != "tag:yaml.org,2002:map" && t != "!" {
                        return Err(format!("unsupported tag {}", t));
                    }
                }
                let anchor = ev.anchor.clone();
                let mut entries = vec![];
                while self.evs[self.pos].ty != YAML_MAPPING_END_EVENT {
                    let k = self.node()?;
                    let v = self.node()?;
                    entries.push((k, v));
                }
                self.pos += 1;
                let v = Val::Map(entries);
                if let Some(a) = anchor {
                    self.anchors.insert(a, v.clone());
                }
                Ok(v)
            }
            other => Err(format!("unexpected event {:?}", other as u32)),
        }
    }
}

pub fn read_stream(text: &[u8]) -> Result<YamlDocs, String> {
    let evs = events(text)?;
    let mut b = Builder { evs: &evs, pos: 0, anchors: HashMap::new(), budget: 2_000_000 };
    let mut docs = vec![];
    let mut explicit = vec![];
    use yaml_event_type_t::*;
    while b.pos < evs.len() {
        match evs[b.pos].ty {
            YAML_STREAM_START_EVENT | YAML_STREAM_END_EVENT | YAML_DOCUMENT_END_EVENT => b.pos += 1,
            YAML_DOCUMENT_START_EVENT => {
                explicit.push(!evs[b.pos].implicit);
                b.pos += 1;
                b.anchors.clear();
                docs.push(b.node()?);
            }
            other => return Err(format!("unexpected top-level event {:?}", other as u32)),
        }
    }
    Ok(YamlDocs { docs, explicit_start: explicit })
}

/// Event-level summary used by detection preconditions: is the text a valid
/// YAML stream, and is its first document a collection?
pub fn first_doc_is_collection(text: &[u8]) -> Option<bool> {
    let evs = events(text).ok()?;
    use yaml_event_type_t::*;
    for (i, e) in evs.iter().enumerate() {
        if e.ty == YAML_DOCUMENT_START_EVENT {
            return Some(matches!(evs.get(i + 1).map(|e| e.ty), Some(YAML_SEQUENCE_START_EVENT | YAML_MAPPING_START_EVENT)));
        }
    }
    Some(false)
}
