//! Reference model of the xt command line, written from doc/xt.1 and --help.
//! Translated bytes in the reference come from in-process library calls.

use std::ffi::OsString;

use serde_json::{json, Value as J};

use crate::cli::*;
use crate::sio::Sched;
use crate::util::*;
use crate::xtapi::*;

#[derive(Clone, Debug, PartialEq)]
pub enum FileKind {
    Regular(Vec<u8>),
    Fifo(Vec<u8>),
    /// a symbolic link to a file (under /proc) that reports size 0 but has
    /// content; the content is read when the model needs it
    ProcLink(String),
    Dir,
    Missing,
}

#[derive(Clone, Debug)]
pub struct FileSpec {
    pub name: String,
    pub kind: FileKind,
}

#[derive(Clone, Copy, Debug, PartialEq)]
pub enum OutKind {
    Pipe,
    File,
    Pty,
}

#[derive(Clone, Debug)]
pub struct Invocation {
    pub args: Vec<String>,
    pub files: Vec<FileSpec>,
    pub stdin: Vec<u8>,
    pub out: OutKind,
    pub bin: Bin,
    /// when set, standard input is a regular file holding `stdin`, redirected
    /// with its offset already at this position
    pub stdin_file_offset: Option<usize>,
}

/// A file name that is not valid UTF-8 is written with this marker in `args`
/// and `files`; on disk and on the command line the marker is the byte 0xE9.
pub const NON_UTF8_MARK: &str = "\u{e000}NONUTF8\u{e000}";

pub fn os_name(name: &str) -> OsString {
    use std::os::unix::ffi::OsStringExt;
    if name.contains(NON_UTF8_MARK) {
        let mut bytes = vec![];
        let mut rest = name;
        while let Some(i) = rest.find(NON_UTF8_MARK) {
            bytes.extend_from_slice(rest[..i].as_bytes());
            bytes.push(0xe9);
            rest = &rest[i + NON_UTF8_MARK.len()..];
        }
        bytes.extend_from_slice(rest.as_bytes());
        OsString::from_vec(bytes)
    } else {
        OsString::from(name)
    }
}

impl Invocation {
    pub fn to_json(&self, unit: &str) -> J {
        json!({"unit": unit, "args": self.args, "stdin": hex(&self.stdin), "out": format!("{:?}", self.out), "bin": self.bin.name(), "stdin_file_offset": self.stdin_file_offset,
               "files": self.files.iter().map(|f| match &f.kind {
                   FileKind::Regular(b) => json!({"name": f.name, "kind": "regular", "bytes": hex(b)}),
                   FileKind::Fifo(b) => json!({"name": f.name, "kind": "fifo", "bytes": hex(b)}),
                   FileKind::ProcLink(t) => json!({"name": f.name, "kind": "proclink", "target": t}),
                   FileKind::Dir => json!({"name": f.name, "kind": "dir"}),
                   FileKind::Missing => json!({"name": f.name, "kind": "missing"}),
               }).collect::<Vec<_>>()})
    }
    pub fn from_json(j: &J) -> Option<Invocation> {
        Some(Invocation {
            args: j["args"].as_array()?.iter().map(|a| a.as_str().map(String::from)).collect::<Option<Vec<_>>>()?,
            stdin: unhex(j["stdin"].as_str()?)?,
            out: match j["out"].as_str()? {
                "Pipe" => OutKind::Pipe,
                "File" => OutKind::File,
                _ => OutKind::Pty,
            },
            bin: Bin::from_name(j["bin"].as_str()?)?,
            stdin_file_offset: j["stdin_file_offset"].as_u64().map(|x| x as usize),
            files: j["files"]
                .as_array()?
                .iter()
                .map(|f| {
                    let name = f["name"].as_str()?.to_string();
                    let bytes = || f["bytes"].as_str().and_then(unhex);
                    let kind = match f["kind"].as_str()? {
                        "regular" => FileKind::Regular(bytes()?),
                        "fifo" => FileKind::Fifo(bytes()?),
                        "proclink" => FileKind::ProcLink(f["target"].as_str()?.to_string()),
                        "dir" => FileKind::Dir,
                        _ => FileKind::Missing,
                    };
                    Some(FileSpec { name, kind })
                })
                .collect::<Option<Vec<_>>>()?,
        })
    }
}

#[derive(Clone, Debug)]
pub enum Parsed {
    HelpShort,
    HelpLong,
    Version,
    Usage(String),
    Run { from: Option<Fmt>, to: Fmt, paths: Vec<String> },
}

pub fn parse_format(s: &str) -> Option<Fmt> {
    match s {
        "j" | "json" => Some(Fmt::Json),
        "m" | "msgpack" => Some(Fmt::Msgpack),
        "t" | "toml" => Some(Fmt::Toml),
        "y" | "yaml" => Some(Fmt::Yaml),
        _ => None,
    }
}

/// Left-to-right argument processing as the manual describes it.
pub fn parse_args(args: &[String]) -> Parsed {
    let mut from: Option<Fmt> = None;
    let mut to: Option<Fmt> = None;
    let mut paths = vec![];
    let mut after_dd = false;
    let mut i = 0;
    while i < args.len() {
        let a = &args[i];
        i += 1;
        if after_dd {
            paths.push(a.clone());
        } else if a == "--" {
            after_dd = true;
        } else if a == "-" || !a.starts_with('-') {
            paths.push(a.clone());
        } else if let Some(long) = a.strip_prefix("--") {
            let name = long.split('=').next().unwrap_or("");
            match name {
                "help" => return Parsed::HelpLong,
                "version" => return Parsed::Version,
                _ => return Parsed::Usage(format!("unknown long option {}", a)),
            }
        } else {
            let mut chars = a[1..].chars();
            let c = chars.next().unwrap();
            let rest: String = chars.collect();
            match c {
                'h' => return Parsed::HelpShort,
                'V' => return Parsed::Version,
                'f' | 't' => {
                    let slot = if c == 'f' { &mut from } else { &mut to };
                    if slot.is_some() {
                        return Parsed::Usage(format!("-{} given more than once", c));
                    }
                    let value = if rest.is_empty() {
                        if i < args.len() {
                            i += 1;
                            args[i - 1].clone()
                        } else {
                            return Parsed::Usage(format!("missing value for -{}", c));
                        }
                    } else {
                        rest.strip_prefix('=').unwrap_or(&rest).to_string()
                    };
                    match parse_format(&value) {
                        Some(f) => *slot = Some(f),
                        None => return Parsed::Usage(format!("invalid format name {:?}", value)),
                    }
                }
                _ => return Parsed::Usage(format!("unknown option -{}", c)),
            }
        }
    }
    Parsed::Run { from, to: to.unwrap_or(Fmt::Json), paths }
}

/// Extension table from the manual, matched case-insensitively on the last
/// extension (Rust's `Path::extension`).
pub fn extension_format(name: &str) -> Option<Fmt> {
    let os = os_name(name);
    let ext = std::path::Path::new(&os).extension()?.to_str()?.to_ascii_lowercase();
    match ext.as_str() {
        "json" => Some(Fmt::Json),
        "msgpack" => Some(Fmt::Msgpack),
        "toml" => Some(Fmt::Toml),
        "yaml" | "yml" => Some(Fmt::Yaml),
        _ => None,
    }
}

/// How xt prints the path in messages (`Path::display`, lossy).
pub fn display_name(p: &str) -> String {
    os_name(p).to_string_lossy().into_owned()
}

#[derive(Clone, Debug)]
pub enum Expect {
    Info,
    Usage,
    Run {
        exit: i32,
        /// stdout must start with this (translations of all inputs that finished)
        min: Vec<u8>,
        /// and must be a prefix of this (plus partial output of the failing input)
        max: Vec<u8>,
        /// display name of the failing input, when the failure belongs to one
        failing: Option<String>,
        tty_refused: bool,
        inputs_done: usize,
    },
}

pub fn expectation(inv: &Invocation) -> Expect {
    match parse_args(&inv.args) {
        Parsed::HelpShort | Parsed::HelpLong | Parsed::Version => Expect::Info,
        Parsed::Usage(_) => Expect::Usage,
        Parsed::Run { from, to, paths } => {
            if inv.out == OutKind::Pty && to == Fmt::Msgpack {
                return Expect::Run { exit: 1, min: vec![], max: vec![], failing: None, tty_refused: true, inputs_done: 0 };
            }
            let paths = if paths.is_empty() { vec!["-".to_string()] } else { paths };
            let mut out: Vec<u8> = vec![];
            let mut done_len = 0usize;
            let mut stdin_used = false;
            let mut failing: Option<Option<String>> = None;
            let mut inputs_done = 0;
            {
                let shared = std::rc::Rc::new(std::cell::RefCell::new(Vec::<u8>::new()));
                struct W(std::rc::Rc<std::cell::RefCell<Vec<u8>>>);
                impl std::io::Write for W {
                    fn write(&mut self, b: &[u8]) -> std::io::Result<usize> {
                        self.0.borrow_mut().extend_from_slice(b);
                        Ok(b.len())
                    }
                    fn flush(&mut self) -> std::io::Result<()> {
                        Ok(())
                    }
                }
                let mut t = xt::Translator::new(W(shared.clone()), to.xt());
                for p in &paths {
                    let (bytes, mode, display): (Vec<u8>, Mode, String) = if p == "-" {
                        if stdin_used {
                            failing = Some(None);
                            break;
                        }
                        stdin_used = true;
                        let content = match inv.stdin_file_offset {
                            Some(off) => inv.stdin[off.min(inv.stdin.len())..].to_vec(),
                            None => inv.stdin.clone(),
                        };
                        (content, Mode::Reader(Sched::Full), "standard input".into())
                    } else {
                        match inv.files.iter().find(|f| f.name == *p).map(|f| &f.kind) {
                            Some(FileKind::Regular(b)) => (b.clone(), if b.is_empty() { Mode::Reader(Sched::Full) } else { Mode::Slice }, display_name(p)),
                            Some(FileKind::Fifo(b)) => (b.clone(), Mode::Reader(Sched::Full), display_name(p)),
                            // cannot be mapped: read like a stream
                            Some(FileKind::ProcLink(t)) => (std::fs::read(t).unwrap_or_default(), Mode::Reader(Sched::Full), display_name(p)),
                            Some(FileKind::Dir) | Some(FileKind::Missing) | None => {
                                failing = Some(Some(display_name(p)));
                                break;
                            }
                        }
                    };
                    let f = from.or_else(|| if p == "-" { None } else { extension_format(p) });
                    match translator_call(&mut t, &bytes, &mode, f) {
                        Verdict::Ok => {
                            done_len = shared.borrow().len();
                            inputs_done += 1;
                        }
                        _ => {
                            failing = Some(Some(display));
                            break;
                        }
                    }
                }
                out.extend_from_slice(&shared.borrow());
            }
            match failing {
                None => Expect::Run { exit: 0, min: out.clone(), max: out, failing: None, tty_refused: false, inputs_done },
                Some(name) => Expect::Run { exit: 1, min: out[..done_len].to_vec(), max: out, failing: name, tty_refused: false, inputs_done },
            }
        }
    }
}

pub fn execute(inv: &Invocation) -> Res {
    let sc = Scratch::new("inv");
    let mut fifos = vec![];
    for f in &inv.files {
        match &f.kind {
            FileKind::Regular(b) => {
                std::fs::write(sc.dir.join(os_name(&f.name)), b).expect("write input file");
            }
            FileKind::Fifo(b) => {
                let p = sc.fifo(&f.name);
                // only feed FIFOs that the run will actually open
                fifos.push((p, b.clone()));
            }
            FileKind::ProcLink(t) => {
                std::os::unix::fs::symlink(t, sc.dir.join(&f.name)).expect("symlink");
            }
            FileKind::Dir => {
                let _ = std::fs::create_dir_all(sc.dir.join(&f.name));
            }
            FileKind::Missing => {}
        }
    }
    // a FIFO that xt never opens would block its feeder: only feed those that
    // the model says are reached
    let reached: Vec<String> = match parse_args(&inv.args) {
        Parsed::Run { paths, to, .. } if !(inv.out == OutKind::Pty && to == Fmt::Msgpack) => {
            let mut v = vec![];
            if let Expect::Run { inputs_done, .. } = expectation(inv) {
                for (i, p) in paths.iter().enumerate() {
                    if i <= inputs_done {
                        v.push(p.clone());
                    }
                }
            }
            v
        }
        _ => vec![],
    };
    let fifos: Vec<_> = fifos.into_iter().filter(|(p, _)| reached.iter().any(|r| sc.dir.join(r) == *p)).collect();
    let args: Vec<OsString> = inv.args.iter().map(|a| os_name(a)).collect();
    let stdout = match inv.out {
        OutKind::Pipe => StdoutSpec::Pipe,
        OutKind::File => StdoutSpec::File,
        OutKind::Pty => StdoutSpec::Pty,
    };
    let stdin = match inv.stdin_file_offset {
        Some(off) => StdinSpec::FileAt(inv.stdin.clone(), off.min(inv.stdin.len())),
        None => StdinSpec::Bytes(inv.stdin.clone()),
    };
    run_xt(inv.bin, &args, &sc.dir, stdin, stdout, fifos)
}

/// Compares an observed run with the model. Returns a class label on success.
pub fn judge(inv: &Invocation, res: &Res, exp: &Expect) -> Result<&'static str, String> {
    if res.timed_out {
        return Err("the run did not finish within 60 s".into());
    }
    let stdout: Vec<u8> = if inv.out == OutKind::Pty {
        // the terminal line discipline turns \n into \r\n
        let mut v = vec![];
        let mut i = 0;
        while i < res.stdout.len() {
            if res.stdout[i] == b'\r' && res.stdout.get(i + 1) == Some(&b'\n') {
                i += 1;
                continue;
            }
            v.push(res.stdout[i]);
            i += 1;
        }
        v
    } else {
        res.stdout.clone()
    };
    let stderr = String::from_utf8_lossy(&res.stderr).to_string();
    match exp {
        Expect::Info => {
            if res.code != Some(0) {
                return Err(format!("help/version requested first: expected exit 0, got {}", res.brief()));
            }
            if stdout.is_empty() || !stderr.is_empty() {
                return Err(format!("help/version must go to standard output only: {}", res.brief()));
            }
            Ok("info")
        }
        Expect::Usage => {
            if res.code != Some(2) {
                return Err(format!("invalid command line: expected exit 2, got {}", res.brief()));
            }
            if !stdout.is_empty() {
                return Err(format!("invalid command line: standard output must stay empty: {}", res.brief()));
            }
            if !stderr.starts_with("xt error") || !stderr.contains("Usage:") {
                return Err(format!("invalid command line: standard error must start with 'xt error' and carry the usage summary: {:?}", stderr));
            }
            Ok("usage")
        }
        Expect::Run { exit, min, max, failing, tty_refused, .. } => {
            if res.code != Some(*exit) {
                return Err(format!("expected exit {}, got {}", exit, res.brief()));
            }
            if *tty_refused {
                if !stdout.is_empty() {
                    return Err(format!("MessagePack was written to a terminal: {:?}", brief_bytes(&stdout)));
                }
                if !stderr.starts_with("xt error") {
                    return Err(format!("terminal refusal without an 'xt error' message: {:?}", stderr));
                }
                return Ok("tty_refused");
            }
            if *exit == 0 {
                if stdout != *max {
                    return Err(format!("exit 0 but standard output differs from the library's output: {:?} vs {:?}", brief_bytes(&stdout), brief_bytes(max)));
                }
                if !stderr.is_empty() {
                    return Err(format!("exit 0 with text on standard error: {:?}", stderr));
                }
                Ok("ok")
            } else {
                if !is_prefix(min, &stdout) {
                    return Err(format!(
                        "exit 1: standard output does not start with the translations of the inputs that precede the failing one: got {:?} ({} bytes), expected at least {:?} ({} bytes)",
                        brief_bytes(&stdout),
                        stdout.len(),
                        brief_bytes(min),
                        min.len()
                    ));
                }
                if !is_prefix(&stdout, max) {
                    return Err(format!("exit 1: standard output carries bytes the library never produced: {:?} vs {:?}", brief_bytes(&stdout), brief_bytes(max)));
                }
                let first = stderr.lines().next().unwrap_or("");
                if !first.starts_with("xt error") {
                    return Err(format!("exit 1 without a message starting with 'xt error': {:?}", stderr));
                }
                if let Some(name) = failing {
                    if !first.contains(name.as_str()) {
                        return Err(format!("exit 1: the message does not name the offending input {:?}: {:?}", name, first));
                    }
                }
                Ok("failed")
            }
        }
    }
}
