//! Thin wrappers that call xt and capture the complete observable outcome.

use std::io::{Read, Write};
use std::panic::{catch_unwind, AssertUnwindSafe};

use xt::Format;

use crate::sio::{Sched, SchedReader};

#[derive(Clone, Copy, Debug, PartialEq, Eq, Hash)]
pub enum Fmt {
    Json,
    Msgpack,
    Toml,
    Yaml,
}

pub const FORMATS: [Fmt; 4] = [Fmt::Json, Fmt::Msgpack, Fmt::Toml, Fmt::Yaml];
pub const STREAMING: [Fmt; 3] = [Fmt::Json, Fmt::Msgpack, Fmt::Yaml];

impl Fmt {
    pub fn xt(self) -> Format {
        match self {
            Fmt::Json => Format::Json,
            Fmt::Msgpack => Format::Msgpack,
            Fmt::Toml => Format::Toml,
            Fmt::Yaml => Format::Yaml,
        }
    }
    pub fn from_xt(f: Format) -> Fmt {
        match f {
            Format::Json => Fmt::Json,
            Format::Msgpack => Fmt::Msgpack,
            Format::Toml => Fmt::Toml,
            Format::Yaml => Fmt::Yaml,
            _ => unreachable!(),
        }
    }
    pub fn name(self) -> &'static str {
        match self {
            Fmt::Json => "json",
            Fmt::Msgpack => "msgpack",
            Fmt::Toml => "toml",
            Fmt::Yaml => "yaml",
        }
    }
    pub fn from_name(s: &str) -> Option<Fmt> {
        FORMATS.iter().copied().find(|f| f.name() == s)
    }
    pub fn idx(self) -> usize {
        self as usize
    }
}

pub fn opt_name(f: Option<Fmt>) -> &'static str {
    f.map_or("detect", Fmt::name)
}
pub fn opt_from_name(s: &str) -> Option<Option<Fmt>> {
    if s == "detect" {
        Some(None)
    } else {
        Fmt::from_name(s).map(Some)
    }
}

#[derive(Clone, Debug, PartialEq)]
pub enum Verdict {
    Ok,
    Err(String),
    Panic(String),
}

impl Verdict {
    pub fn is_ok(&self) -> bool {
        matches!(self, Verdict::Ok)
    }
    pub fn is_err(&self) -> bool {
        matches!(self, Verdict::Err(_))
    }
    pub fn is_panic(&self) -> bool {
        matches!(self, Verdict::Panic(_))
    }
    pub fn text(&self) -> &str {
        match self {
            Verdict::Ok => "",
            Verdict::Err(s) | Verdict::Panic(s) => s,
        }
    }
    pub fn brief(&self) -> String {
        match self {
            Verdict::Ok => "Ok".into(),
            Verdict::Err(s) => format!("Err({})", s),
            Verdict::Panic(s) => format!("PANIC({})", s),
        }
    }
}

#[derive(Clone, Debug)]
pub struct Outcome {
    pub verdict: Verdict,
    pub out: Vec<u8>,
}

impl Outcome {
    pub fn brief(&self) -> String {
        format!("{} out={:?}", self.verdict.brief(), crate::util::brief_bytes(&self.out))
    }
}

thread_local! {
    pub static LAST_PANIC: std::cell::RefCell<Option<String>> = const { std::cell::RefCell::new(None) };
}

pub fn install_panic_hook() {
    std::panic::set_hook(Box::new(|info| {
        let msg = if let Some(s) = info.payload().downcast_ref::<&str>() {
            s.to_string()
        } else if let Some(s) = info.payload().downcast_ref::<String>() {
            s.clone()
        } else {
            "<non-string panic>".to_string()
        };
        let loc = info.location().map(|l| format!("{}:{}", l.file(), l.line())).unwrap_or_default();
        LAST_PANIC.with(|p| *p.borrow_mut() = Some(format!("{} @ {}", msg, loc)));
    }));
}

pub fn guarded<F: FnOnce() -> Result<(), xt::Error>>(f: F) -> Verdict {
    match catch_unwind(AssertUnwindSafe(f)) {
        Ok(Ok(())) => Verdict::Ok,
        Ok(Err(e)) => Verdict::Err(e.to_string()),
        Err(_) => Verdict::Panic(LAST_PANIC.with(|p| p.borrow_mut().take()).unwrap_or_else(|| "panic".into())),
    }
}

pub fn run_slice(input: &[u8], from: Option<Fmt>, to: Fmt) -> Outcome {
    let mut out = vec![];
    let verdict = guarded(|| xt::translate_slice(input, from.map(Fmt::xt), to.xt(), &mut out));
    Outcome { verdict, out }
}

pub fn run_reader<R: Read>(input: R, from: Option<Fmt>, to: Fmt) -> Outcome {
    let mut out = vec![];
    let verdict = guarded(|| xt::translate_reader(input, from.map(Fmt::xt), to.xt(), &mut out));
    Outcome { verdict, out }
}

pub fn run_sched(input: &[u8], sched: &Sched, from: Option<Fmt>, to: Fmt) -> Outcome {
    run_reader(SchedReader::new(input, sched.clone()), from, to)
}

/// The supply mode of one translation.
#[derive(Clone, Debug, PartialEq)]
pub enum Mode {
    Slice,
    Reader(Sched),
}

impl Mode {
    pub fn to_json(&self) -> serde_json::Value {
        match self {
            Mode::Slice => serde_json::json!("slice"),
            Mode::Reader(s) => serde_json::json!({ "reader": s.to_json() }),
        }
    }
    pub fn from_json(j: &serde_json::Value) -> Option<Mode> {
        if j.as_str() == Some("slice") {
            Some(Mode::Slice)
        } else {
            Some(Mode::Reader(Sched::from_json(j.get("reader")?)?))
        }
    }
    pub fn class(&self) -> &'static str {
        match self {
            Mode::Slice => "slice",
            Mode::Reader(s) => s.class(),
        }
    }
}

pub fn mode_strategy() -> proptest::strategy::BoxedStrategy<Mode> {
    use proptest::prelude::*;
    prop_oneof![
        2 => Just(Mode::Slice),
        3 => crate::sio::sched_strategy().prop_map(Mode::Reader),
    ]
    .boxed()
}

pub fn run_mode(input: &[u8], mode: &Mode, from: Option<Fmt>, to: Fmt) -> Outcome {
    match mode {
        Mode::Slice => run_slice(input, from, to),
        Mode::Reader(s) => run_sched(input, s, from, to),
    }
}

/// One call on a long-lived translator.
pub fn translator_call<W: Write>(t: &mut xt::Translator<W>, input: &[u8], mode: &Mode, from: Option<Fmt>) -> Verdict {
    match mode {
        Mode::Slice => guarded(|| t.translate_slice(input, from.map(Fmt::xt))),
        Mode::Reader(s) => guarded(|| t.translate_reader(SchedReader::new(input, s.clone()), from.map(Fmt::xt))),
    }
}

pub fn detect(input: &[u8], mode: &Mode) -> Result<Option<Fmt>, String> {
    let r = match mode {
        Mode::Slice => xt::verif::detect_slice(input),
        Mode::Reader(s) => xt::verif::detect_reader(SchedReader::new(input, s.clone())),
    };
    r.map(|o| o.map(Fmt::from_xt)).map_err(|e| e.to_string())
}

/// Like `detect`, also reporting whether the reader delivered its end of file
/// (a zero-byte read) while detection ran.
pub fn detect_eof(input: &[u8], mode: &Mode) -> (Result<Option<Fmt>, String>, bool) {
    match mode {
        Mode::Slice => (detect(input, mode), true),
        Mode::Reader(s) => {
            let mut r = SchedReader::new(input, s.clone());
            let res = xt::verif::detect_reader(&mut r);
            (res.map(|o| o.map(Fmt::from_xt)).map_err(|e| e.to_string()), r.eof_reads > 0)
        }
    }
}
