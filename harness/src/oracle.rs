//! Shared oracle pieces: writing a model document in a source format, reading
//! target output with the independent readers.

use crate::model::Val;
use crate::util::Style;
use crate::xtapi::Fmt;
use crate::{rd_json, rd_msgpack, rd_toml, rd_yaml, wr_json, wr_msgpack, wr_toml, wr_yaml};

/// Can `v` be written as a source document of format `f` by the harness
/// writers?
pub fn writable(v: &Val, f: Fmt) -> bool {
    match f {
        Fmt::Json => wr_json::supports(v),
        Fmt::Msgpack => wr_msgpack::supports(v),
        Fmt::Yaml => wr_yaml::supports(v),
        Fmt::Toml => wr_toml::supports(v),
    }
}

/// Is `v` representable as a *target* document of format `f` according to
/// xt's documentation (C01: "values that both formats involved can
/// represent")?
pub fn representable(v: &Val, f: Fmt) -> bool {
    match f {
        Fmt::Json => wr_json::supports(v),
        Fmt::Msgpack => wr_msgpack::supports(v),
        Fmt::Yaml => wr_yaml::supports(v),
        Fmt::Toml => wr_toml::supports(v),
    }
}

/// Writes one document; returns the bytes and the value the text denotes
/// (differs from `v` only for TOML, by the forced section reordering).
pub fn write_source(v: &Val, f: Fmt, style: &Style) -> (Vec<u8>, Val) {
    match f {
        Fmt::Json => (wr_json::write_doc(v, style).into_bytes(), v.clone()),
        Fmt::Msgpack => (wr_msgpack::write_doc(v, style), v.clone()),
        Fmt::Yaml => (wr_yaml::write_doc(v, style).into_bytes(), v.clone()),
        Fmt::Toml => {
            let (t, m) = wr_toml::write_doc(v, style);
            (t.into_bytes(), m)
        }
    }
}

/// Reads bytes of format `f` with the independent reader (source-side
/// validation: any legal framing).
pub fn read_any(bytes: &[u8], f: Fmt) -> Result<Vec<Val>, String> {
    match f {
        Fmt::Json => rd_json::read_stream(bytes),
        Fmt::Msgpack => rd_msgpack::read_stream(bytes),
        Fmt::Yaml => rd_yaml::read_stream(bytes).map(|d| d.docs),
        Fmt::Toml => {
            let s = std::str::from_utf8(bytes).map_err(|e| e.to_string())?;
            rd_toml::read_doc(s).map(|v| vec![v])
        }
    }
}

/// Reads xt's *output* of format `f`, enforcing the documented framing: one
/// line per document for JSON, one `---`-introduced document per document for
/// YAML, back-to-back values for MessagePack, nothing or one document for TOML.
pub fn read_output(bytes: &[u8], f: Fmt) -> Result<Vec<Val>, String> {
    match f {
        Fmt::Json => rd_json::read_lines(bytes),
        Fmt::Msgpack => rd_msgpack::read_stream(bytes),
        Fmt::Yaml => {
            let text = std::str::from_utf8(bytes).map_err(|e| format!("YAML output is not UTF-8: {}", e))?;
            let d = rd_yaml::read_stream(text.as_bytes())?;
            if d.explicit_start.iter().any(|e| !e) {
                return Err("a YAML output document is not introduced by '---'".into());
            }
            Ok(d.docs)
        }
        Fmt::Toml => {
            // an empty text is the empty TOML document
            let s = std::str::from_utf8(bytes).map_err(|e| format!("TOML output is not UTF-8: {}", e))?;
            rd_toml::read_doc(s).map(|v| vec![v])
        }
    }
}

/// What the independent reader of target `b` must see for model value `m`.
pub fn expect(m: &Val, b: Fmt) -> Val {
    if b == Fmt::Toml {
        m.toml_normal()
    } else {
        m.clone()
    }
}

/// Restricts a drawn value so that it is a legal document of `a` (source) by
/// construction.
pub fn project_source(v: Val, a: Fmt) -> Val {
    match a {
        Fmt::Toml => strip_for_toml(crate::model::table_rooted(v)),
        _ => v,
    }
}

/// Removes what TOML cannot hold: nulls become "null" strings? No - they are
/// dropped (entries) or replaced by `false` (array items); ints above i64::MAX
/// are clamped.
pub fn strip_for_toml(v: Val) -> Val {
    match v {
        Val::Null => Val::Bool(false),
        Val::Int(i) if i > i64::MAX as i128 => Val::Int(i64::MAX as i128),
        Val::Seq(items) => Val::Seq(items.into_iter().map(strip_for_toml).collect()),
        Val::Map(entries) => Val::Map(entries.into_iter().map(|(k, v)| (k, strip_for_toml(v))).collect()),
        other => other,
    }
}
