//! TOML reader through toml_edit, walked in document order.

use toml_edit::{ImDocument, Item, Value};

use crate::model::Val;

fn value(v: &Value) -> Val {
    match v {
        Value::String(s) => Val::Str(s.value().clone()),
        Value::Integer(i) => Val::Int(*i.value() as i128),
        Value::Float(f) => Val::Float(*f.value()),
        Value::Boolean(b) => Val::Bool(*b.value()),
        Value::Datetime(d) => Val::Datetime(d.value().to_string()),
        Value::Array(a) => Val::Seq(a.iter().map(value).collect()),
        Value::InlineTable(t) => Val::Map(t.iter().map(|(k, v)| (Val::Str(k.to_string()), value(v))).collect()),
    }
}

fn item(it: &Item) -> Option<Val> {
    match it {
        Item::None => None,
        Item::Value(v) => Some(value(v)),
        Item::Table(t) => Some(table(t)),
        Item::ArrayOfTables(a) => Some(Val::Seq(a.iter().map(table).collect())),
    }
}

fn table(t: &toml_edit::Table) -> Val {
    let mut out = vec![];
    for (k, v) in t.iter() {
        if let Some(v) = item(v) {
            out.push((Val::Str(k.to_string()), v));
        }
    }
    Val::Map(out)
}

pub fn read_doc(text: &str) -> Result<Val, String> {
    let doc = ImDocument::parse(text.to_string()).map_err(|e| e.to_string())?;
    Ok(table(doc.as_table()))
}
