//! MessagePack spelling writer: every legal width for ints and headers.

use crate::model::Val;
use crate::util::{Style, Tape};

fn write_int(i: i128, tape: &mut Tape, out: &mut Vec<u8>) {
    // candidate encodings, smallest first
    let mut cands: Vec<u8> = vec![];
    if (0..=127).contains(&i) {
        cands.push(0); // positive fixint
    }
    if (-32..0).contains(&i) {
        cands.push(1); // negative fixint
    }
    if (0..=0xff).contains(&i) {
        cands.push(2);
    }
    if (0..=0xffff).contains(&i) {
        cands.push(3);
    }
    if (0..=0xffff_ffff).contains(&i) {
        cands.push(4);
    }
    if (0..=u64::MAX as i128).contains(&i) {
        cands.push(5);
    }
    if (i8::MIN as i128..=i8::MAX as i128).contains(&i) {
        cands.push(6);
    }
    if (i16::MIN as i128..=i16::MAX as i128).contains(&i) {
        cands.push(7);
    }
    if (i32::MIN as i128..=i32::MAX as i128).contains(&i) {
        cands.push(8);
    }
    if (i64::MIN as i128..=i64::MAX as i128).contains(&i) {
        cands.push(9);
    }
    let c = cands[tape.pick(cands.len())];
    match c {
        0 => out.push(i as u8),
        1 => out.push(i as i8 as u8),
        2 => {
            out.push(0xcc);
            out.push(i as u8)
        }
        3 => {
            out.push(0xcd);
            out.extend((i as u16).to_be_bytes())
        }
        4 => {
            out.push(0xce);
            out.extend((i as u32).to_be_bytes())
        }
        5 => {
            out.push(0xcf);
            out.extend((i as u64).to_be_bytes())
        }
        6 => {
            out.push(0xd0);
            out.push(i as i8 as u8)
        }
        7 => {
            out.push(0xd1);
            out.extend((i as i16).to_be_bytes())
        }
        8 => {
            out.push(0xd2);
            out.extend((i as i32).to_be_bytes())
        }
        _ => {
            out.push(0xd3);
            out.extend((i as i64).to_be_bytes())
        }
    }
}

/// Writes a length header choosing among the legal widths.
/// `kinds` = (fix base, fix max, m8 or 0, m16, m32)
fn write_len(len: usize, fix: Option<(u8, usize)>, m8: Option<u8>, m16: u8, m32: u8, tape: &mut Tape, out: &mut Vec<u8>) {
    let mut cands = vec![];
    if let Some((_, max)) = fix {
        if len <= max {
            cands.push(0);
        }
    }
    if m8.is_some() && len <= 0xff {
        cands.push(1);
    }
    if len <= 0xffff {
        cands.push(2);
    }
    cands.push(3);
    match cands[tape.pick(cands.len())] {
        0 => out.push(fix.unwrap().0 | len as u8),
        1 => {
            out.push(m8.unwrap());
            out.push(len as u8)
        }
        2 => {
            out.push(m16);
            out.extend((len as u16).to_be_bytes())
        }
        _ => {
            out.push(m32);
            out.extend((len as u32).to_be_bytes())
        }
    }
}

fn write_val(v: &Val, tape: &mut Tape, out: &mut Vec<u8>) {
    match v {
        Val::Null => out.push(0xc0),
        Val::Bool(b) => out.push(if *b { 0xc3 } else { 0xc2 }),
        Val::Int(i) => write_int(*i, tape, out),
        Val::Float(f) => {
            out.push(0xcb);
            out.extend(f.to_bits().to_be_bytes())
        }
        Val::F32(f) => {
            out.push(0xca);
            out.extend(f.to_bits().to_be_bytes())
        }
        Val::Str(s) => {
            write_len(s.len(), Some((0xa0, 31)), Some(0xd9), 0xda, 0xdb, tape, out);
            out.extend(s.as_bytes());
        }
        Val::Bytes(b) => {
            write_len(b.len(), None, Some(0xc4), 0xc5, 0xc6, tape, out);
            out.extend(b);
        }
        Val::Seq(items) => {
            write_len(items.len(), Some((0x90, 15)), None, 0xdc, 0xdd, tape, out);
            for x in items {
                write_val(x, tape, out);
            }
        }
        Val::Map(entries) => {
            write_len(entries.len(), Some((0x80, 15)), None, 0xde, 0xdf, tape, out);
            for (k, x) in entries {
                write_val(k, tape, out);
                write_val(x, tape, out);
            }
        }
        Val::Ext(t, data) => {
            match data.len() {
                1 => out.push(0xd4),
                2 => out.push(0xd5),
                4 => out.push(0xd6),
                8 => out.push(0xd7),
                16 => out.push(0xd8),
                n if n <= 0xff => {
                    out.push(0xc7);
                    out.push(n as u8)
                }
                n if n <= 0xffff => {
                    out.push(0xc8);
                    out.extend((n as u16).to_be_bytes())
                }
                n => {
                    out.push(0xc9);
                    out.extend((n as u32).to_be_bytes())
                }
            }
            out.push(*t as u8);
            out.extend(data);
        }
        Val::Datetime(_) => panic!("MessagePack writer: datetime unsupported"),
    }
}

pub fn supports(v: &Val) -> bool {
    !v.any(&|n| matches!(n, Val::Datetime(_)))
}

pub fn write_doc(v: &Val, style: &Style) -> Vec<u8> {
    let mut tape = Tape::new(style);
    let mut out = vec![];
    write_val(v, &mut tape, &mut out);
    out
}

pub fn write_stream(docs: &[Val], styles: &[Style]) -> Vec<u8> {
    let mut out = vec![];
    for (i, d) in docs.iter().enumerate() {
        out.extend(write_doc(d, &styles[i % styles.len().max(1)]));
    }
    out
}
