//! Independent JSON reader (recursive descent, written for the harness).
//! A number token without '.', 'e' or 'E' is an Int (parsed exactly); any other
//! number is a Float via Rust's correctly rounded `str::parse::<f64>`.

use crate::model::Val;

pub struct P<'a> {
    pub b: &'a [u8],
    pub i: usize,
    depth: usize,
}

impl<'a> P<'a> {
    pub fn new(b: &'a [u8]) -> P<'a> {
        P { b, i: 0, depth: 0 }
    }

    pub fn skip_ws(&mut self) {
        while self.i < self.b.len() && matches!(self.b[self.i], b' ' | b'\t' | b'\n' | b'\r') {
            self.i += 1;
        }
    }

    fn err<T>(&self, m: &str) -> Result<T, String> {
        Err(format!("{} at byte {}", m, self.i))
    }

    fn lit(&mut self, word: &str, v: Val) -> Result<Val, String> {
        if self.b[self.i..].starts_with(word.as_bytes()) {
            self.i += word.len();
            Ok(v)
        } else {
            self.err("bad literal")
        }
    }

    fn hex4(&mut self) -> Result<u32, String> {
        if self.i + 4 > self.b.len() {
            return self.err("short \\u escape");
        }
        let s = std::str::from_utf8(&self.b[self.i..self.i + 4]).map_err(|_| "bad \\u".to_string())?;
        if !s.bytes().all(|c| c.is_ascii_hexdigit()) {
            return self.err("bad \\u escape");
        }
        self.i += 4;
        Ok(u32::from_str_radix(s, 16).unwrap())
    }

    fn string(&mut self) -> Result<String, String> {
        debug_assert_eq!(self.b[self.i], b'"');
        self.i += 1;
        let mut out: Vec<u8> = vec![];
        loop {
            if self.i >= self.b.len() {
                return self.err("unterminated string");
            }
            let c = self.b[self.i];
            self.i += 1;
            match c {
                b'"' => break,
                b'\\' => {
                    if self.i >= self.b.len() {
                        return self.err("unterminated escape");
                    }
                    let e = self.b[self.i];
                    self.i += 1;
                    match e {
                        b'"' => out.push(b'"'),
                        b'\\' => out.push(b'\\'),
                        b'/' => out.push(b'/'),
                        b'b' => out.push(8),
                        b'f' => out.push(12),
                        b'n' => out.push(b'\n'),
                        b'r' => out.push(b'\r'),
                        b't' => out.push(b'\t'),
                        b'u' => {
                            let u = self.hex4()?;
                            let cp = if (0xd800..0xdc00).contains(&u) {
                                if self.b[self.i..].starts_with(b"\\u") {
                                    self.i += 2;
                                    let lo = self.hex4()?;
                                    if !(0xdc00..0xe000).contains(&lo) {
                                        return self.err("bad low surrogate");
                                    }
                                    0x10000 + ((u - 0xd800) << 10) + (lo - 0xdc00)
                                } else {
                                    return self.err("lone high surrogate");
                                }
                            } else if (0xdc00..0xe000).contains(&u) {
                                return self.err("lone low surrogate");
                            } else {
                                u
                            };
                            let ch = char::from_u32(cp).ok_or("bad code point")?;
                            let mut buf = [0u8; 4];
                            out.extend(ch.encode_utf8(&mut buf).as_bytes());
                        }
                        _ => return self.err("bad escape"),
                    }
                }
                c if c < 0x20 => return self.err("raw control character in string"),
                c => out.push(c),
            }
        }
        String::from_utf8(out).map_err(|_| format!("invalid UTF-8 in string ending at byte {}", self.i))
    }

    fn number(&mut self) -> Result<Val, String> {
        let start = self.i;
        if self.b[self.i] == b'-' {
            self.i += 1;
        }
        let d0 = self.i;
        while self.i < self.b.len() && self.b[self.i].is_ascii_digit() {
            self.i += 1;
        }
        if self.i == d0 {
            return self.err("digits expected");
        }
        if self.b[d0] == b'0' && self.i - d0 > 1 {
            return self.err("leading zero");
        }
        let mut is_float = false;
        if self.i < self.b.len() && self.b[self.i] == b'.' {
            is_float = true;
            self.i += 1;
            let f0 = self.i;
            while self.i < self.b.len() && self.b[self.i].is_ascii_digit() {
                self.i += 1;
            }
            if self.i == f0 {
                return self.err("fraction digits expected");
            }
        }
        if self.i < self.b.len() && (self.b[self.i] == b'e' || self.b[self.i] == b'E') {
            is_float = true;
            self.i += 1;
            if self.i < self.b.len() && (self.b[self.i] == b'+' || self.b[self.i] == b'-') {
                self.i += 1;
            }
            let e0 = self.i;
            while self.i < self.b.len() && self.b[self.i].is_ascii_digit() {
                self.i += 1;
            }
            if self.i == e0 {
                return self.err("exponent digits expected");
            }
        }
        let tok = std::str::from_utf8(&self.b[start..self.i]).unwrap();
        if is_float {
            Ok(Val::Float(tok.parse::<f64>().map_err(|e| e.to_string())?))
        } else {
            match tok.parse::<i128>() {
                Ok(v) if v >= i64::MIN as i128 && v <= u64::MAX as i128 => Ok(Val::Int(v)),
                _ => Ok(Val::Ext(-1, tok.as_bytes().to_vec())),
            }
        }
    }

    pub fn value(&mut self) -> Result<Val, String> {
        self.skip_ws();
        if self.i >= self.b.len() {
            return self.err("value expected");
        }
        if self.depth > 5000 {
            return self.err("too deep");
        }
        match self.b[self.i] {
            b'n' => self.lit("null", Val::Null),
            b't' => self.lit("true", Val::Bool(true)),
            b'f' => self.lit("false", Val::Bool(false)),
            b'"' => Ok(Val::Str(self.string()?)),
            b'-' | b'0'..=b'9' => self.number(),
            b'[' => {
                self.i += 1;
                self.depth += 1;
                let mut items = vec![];
                self.skip_ws();
                if self.i < self.b.len() && self.b[self.i] == b']' {
                    self.i += 1;
                } else {
                    loop {
                        items.push(self.value()?);
                        self.skip_ws();
                        match self.b.get(self.i) {
                            Some(b',') => self.i += 1,
                            Some(b']') => {
                                self.i += 1;
                                break;
                            }
                            _ => return self.err("',' or ']' expected"),
                        }
                    }
                }
                self.depth -= 1;
                Ok(Val::Seq(items))
            }
            b'{' => {
                self.i += 1;
                self.depth += 1;
                let mut entries = vec![];
                self.skip_ws();
                if self.i < self.b.len() && self.b[self.i] == b'}' {
                    self.i += 1;
                } else {
                    loop {
                        self.skip_ws();
                        if self.b.get(self.i) != Some(&b'"') {
                            return self.err("key expected");
                        }
                        let k = self.string()?;
                        self.skip_ws();
                        if self.b.get(self.i) != Some(&b':') {
                            return self.err("':' expected");
                        }
                        self.i += 1;
                        let v = self.value()?;
                        entries.push((Val::Str(k), v));
                        self.skip_ws();
                        match self.b.get(self.i) {
                            Some(b',') => self.i += 1,
                            Some(b'}') => {
                                self.i += 1;
                                break;
                            }
                            _ => return self.err("',' or '}' expected"),
                        }
                    }
                }
                self.depth -= 1;
                Ok(Val::Map(entries))
            }
            _ => self.err("unexpected byte"),
        }
    }
}

/// Reads a whole JSON stream (values separated by optional whitespace).
pub fn read_stream(b: &[u8]) -> Result<Vec<Val>, String> {
    let mut p = P::new(b);
    let mut out = vec![];
    loop {
        p.skip_ws();
        if p.i >= b.len() {
            return Ok(out);
        }
        out.push(p.value()?);
    }
}

/// Reads xt's JSON output framing: exactly one value per line, every line
/// terminated by '\n', no other whitespace.
pub fn read_lines(b: &[u8]) -> Result<Vec<Val>, String> {
    let mut out = vec![];
    if b.is_empty() {
        return Ok(out);
    }
    if *b.last().unwrap() != b'\n' {
        return Err("output does not end with a newline".into());
    }
    for line in b[..b.len() - 1].split(|c| *c == b'\n') {
        let mut p = P::new(line);
        let v = p.value()?;
        if p.i != line.len() {
            return Err(format!("trailing bytes after value on a line: {:?}", String::from_utf8_lossy(line)));
        }
        out.push(v);
    }
    Ok(out)
}

/// Does a JSON value start at offset 0 (after optional whitespace)? Used by
/// the C10 TOML precondition ("its first token is not the start of a JSON
/// value").
pub fn value_at_start(b: &[u8]) -> bool {
    let mut p = P::new(b);
    p.value().is_ok()
}

/// Token-level scan used by known-finding class predicates: finds a scalar
/// token (number/true/false/null) immediately followed by a byte that is
/// neither whitespace nor one of `,]}:` (i.e. two values glued together).
pub fn has_glued_scalar(b: &[u8]) -> bool {
    let mut i = 0;
    let n = b.len();
    while i < n {
        let c = b[i];
        if c == b'"' {
            // skip string
            i += 1;
            while i < n && b[i] != b'"' {
                if b[i] == b'\\' {
                    i += 1;
                }
                i += 1;
            }
            i += 1;
            continue;
        }
        let scalar_end = if c == b'-' || c.is_ascii_digit() {
            let mut j = i + 1;
            while j < n && (b[j].is_ascii_digit() || matches!(b[j], b'.' | b'e' | b'E' | b'+' | b'-')) {
                // a '-' or digit directly after a complete number is itself glue,
                // but telling where the number ends needs the grammar: be generous
                j += 1;
            }
            Some(j)
        } else if b[i..].starts_with(b"true") || b[i..].starts_with(b"null") {
            Some(i + 4)
        } else if b[i..].starts_with(b"false") {
            Some(i + 5)
        } else {
            None
        };
        match scalar_end {
            Some(j) => {
                if j < n && !matches!(b[j], b' ' | b'\t' | b'\n' | b'\r' | b',' | b']' | b'}' | b':') {
                    return true;
                }
                // numbers: also glued if the generous scan swallowed a second number
                if c == b'-' || c.is_ascii_digit() {
                    let tok = &b[i..j];
                    let mut p = P::new(tok);
                    if p.number().is_err() || p.i != tok.len() {
                        return true;
                    }
                }
                i = j.max(i + 1);
            }
            None => i += 1,
        }
    }
    false
}

/// Does some object in the text repeat a key? (token-level; tolerant of
/// malformed input: returns false when it cannot tell)
pub fn has_duplicate_key(b: &[u8]) -> bool {
    fn dup(v: &Val) -> bool {
        match v {
            Val::Seq(s) => s.iter().any(dup),
            Val::Map(m) => {
                for (i, (k, v)) in m.iter().enumerate() {
                    if m[..i].iter().any(|(k2, _)| k2 == k) || dup(v) {
                        return true;
                    }
                }
                false
            }
            _ => false,
        }
    }
    // parse as many leading values as possible
    let mut p = P::new(b);
    loop {
        p.skip_ws();
        if p.i >= b.len() {
            return false;
        }
        match p.value() {
            Ok(v) => {
                if dup(&v) {
                    return true;
                }
            }
            Err(_) => return false,
        }
    }
}
