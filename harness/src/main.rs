use proptest::strategy::{Strategy, ValueTree};
use proptest::test_runner::{Config, RngSeed, TestRunner};
use xtv::model::*;
use xtv::util::*;
use xtv::*;

fn selftest(n: usize) {
    let mut runner = TestRunner::new(Config { rng_seed: RngSeed::Fixed(1), failure_persistence: None, ..Config::default() });
    let strat = (doc_strategy(Shape::COMMON_NULL), style_strategy());
    let mut bad = [0usize; 4];
    let mut tot = [0usize; 4];
    for _ in 0..n {
        let (v, style) = strat.new_tree(&mut runner).unwrap().current();
        // JSON
        if wr_json::supports(&v) {
            tot[0] += 1;
            let t = wr_json::write_doc(&v, &style);
            match rd_json::read_stream(t.as_bytes()) {
                Ok(d) if d.len() == 1 && d[0] == v => {}
                other => {
                    bad[0] += 1;
                    if bad[0] < 4 {
                        println!("JSON self-mismatch: v={} text={:?} got={:?}", v.brief(), t, other.map(|d| d.iter().map(Val::brief).collect::<Vec<_>>()));
                    }
                }
            }
        }
        {
            tot[1] += 1;
            let t = wr_msgpack::write_doc(&v, &style);
            match rd_msgpack::read_stream(&t) {
                Ok(d) if d.len() == 1 && d[0] == v => {}
                other => {
                    bad[1] += 1;
                    if bad[1] < 4 {
                        println!("MSGPACK self-mismatch: v={} got={:?}", v.brief(), other.map(|d| d.iter().map(Val::brief).collect::<Vec<_>>()));
                    }
                }
            }
        }
        if wr_yaml::supports(&v) {
            tot[3] += 1;
            let t = wr_yaml::write_doc(&v, &style);
            match rd_yaml::read_stream(t.as_bytes()) {
                Ok(d) if d.docs.len() == 1 && d.docs[0] == v => {}
                other => {
                    bad[3] += 1;
                    if bad[3] < 6 {
                        println!("YAML self-mismatch: v={} text={:?} got={:?}", v.brief(), t, other.map(|d| d.docs.iter().map(Val::brief).collect::<Vec<_>>()));
                    }
                }
            }
        }
        let tv = table_rooted(v.clone());
        if wr_toml::supports(&tv) {
            tot[2] += 1;
            let (t, model) = wr_toml::write_doc(&tv, &style);
            match rd_toml::read_doc(&t) {
                Ok(d) if d == model => {}
                other => {
                    bad[2] += 1;
                    if bad[2] < 6 {
                        println!("TOML self-mismatch: v={} text={:?} got={:?}", model.brief(), t, other.map(|d| d.brief()));
                    }
                }
            }
        }
    }
    println!("selftest: total {:?} bad {:?}", tot, bad);
    // multi-document streams
    let strat = (proptest::collection::vec(doc_strategy(Shape::COMMON_NULL), 1..4), proptest::collection::vec(style_strategy(), 1..3), proptest::collection::vec(proptest::arbitrary::any::<u8>(), 0..4));
    let mut badn = 0;
    for _ in 0..n {
        let (docs, styles, seps) = strat.new_tree(&mut runner).unwrap().current();
        let t = wr_yaml::write_stream(&docs, &styles, &seps);
        match rd_yaml::read_stream(t.as_bytes()) {
            Ok(d) if d.docs == docs => {}
            other => {
                badn += 1;
                if t.len() < 120 {
                    println!("YAML stream self-mismatch: docs={:?} text={:?} got={:?}", docs.iter().map(Val::brief).collect::<Vec<_>>(), t, other.map(|d| d.docs.iter().map(Val::brief).collect::<Vec<_>>()));
                }
            }
        }
        let jd: Vec<Val> = docs.iter().filter(|d| wr_json::supports(d)).cloned().collect();
        let t = wr_json::write_stream(&jd, &styles, &seps);
        match rd_json::read_stream(t.as_bytes()) {
            Ok(d) if d == jd => {}
            other => {
                badn += 1;
                if badn < 6 {
                    println!("JSON stream self-mismatch: text={:?} got={:?}", t, other.map(|d| d.iter().map(Val::brief).collect::<Vec<_>>()));
                }
            }
        }
    }
    println!("stream selftest: bad {}", badn);
}

fn main() {
    let args: Vec<String> = std::env::args().collect();
    let checks = xtv::checks::all();
    let find = |id: &str| checks.iter().copied().find(|c| c.id() == id);
    let code = match args.get(1).map(String::as_str) {
        Some("selftest") => {
            selftest(args.get(2).and_then(|s| s.parse().ok()).unwrap_or(2000));
            0
        }
        Some("run") => {
            let (id, tier) = (args.get(2).map(String::as_str).unwrap_or(""), args.get(3).and_then(|t| runner::Tier::parse(t)));
            match (find(id), tier) {
                (Some(c), Some(t)) => runner::run_check(c, t),
                _ => {
                    eprintln!("usage: xtv run <ID> <quick|thorough>");
                    2
                }
            }
        }
        Some("worker") => {
            let c = find(&args[2]).expect("check id");
            let tier = runner::Tier::parse(&args[3]).expect("tier");
            let unit: usize = args[4].parse().expect("unit");
            let shard: u32 = args[5].parse().expect("shard");
            let out = std::path::PathBuf::from(&args[6]);
            let trace = args.get(7).map(std::path::PathBuf::from);
            runner::worker_main(c, tier, unit, shard, &out, trace);
            0
        }
        Some("replay") => runner::replay_file(&checks, std::path::Path::new(args.get(2).map(String::as_str).unwrap_or(""))),
        Some("advtime") => {
            // timing of adversarial inputs (diagnostic)
            xtapi::install_panic_hook();
            for (name, bytes) in corpus::adversarial() {
                if let Some(f) = args.get(2) {
                    if !name.contains(f.as_str()) {
                        continue;
                    }
                }
                for from in [None, Some(xtapi::Fmt::Json), Some(xtapi::Fmt::Msgpack), Some(xtapi::Fmt::Toml), Some(xtapi::Fmt::Yaml)] {
                    if matches!(from, None | Some(xtapi::Fmt::Yaml)) && corpus::libyaml_quadratic(&name, &bytes) {
                        continue;
                    }
                    for to in xtapi::FORMATS {
                        let t = std::time::Instant::now();
                        let s = xtapi::run_slice(&bytes, from, to);
                        let t1 = t.elapsed().as_secs_f64();
                        let t = std::time::Instant::now();
                        let r = xtapi::run_sched(&bytes, &sio::Sched::Full, from, to);
                        let t2 = t.elapsed().as_secs_f64();
                        if t1 > 0.5 || t2 > 0.5 {
                            println!("{} {}->{} slice {:.2}s {} | reader {:.2}s {}", name, xtapi::opt_name(from), to.name(), t1, &s.verdict.brief().chars().take(60).collect::<String>(), t2, &r.verdict.brief().chars().take(60).collect::<String>());
                        }
                    }
                }
            }
            0
        }
        Some("miri-sample") => xtv::checks::c17::miri_sample(args.get(2).and_then(|s| s.parse().ok()).unwrap_or(0), args.get(3).and_then(|s| s.parse().ok()).unwrap_or(1)),
        Some("leaktest") => {
            // semantics and cost of the recoverable leak check
            let t = std::time::Instant::now();
            println!("clean: {} ({:?})", xtv::checks::c17::leak_check(), t.elapsed());
            {
                let b: Box<[u8; 1234]> = Box::new([7u8; 1234]);
                let p = Box::into_raw(b);
                std::hint::black_box(p);
            }
            let filler: Vec<Vec<u8>> = (0..100000).map(|i| vec![i as u8; 64]).collect();
            let t = std::time::Instant::now();
            println!("after leak: {} ({:?})", xtv::checks::c17::leak_check(), t.elapsed());
            let t = std::time::Instant::now();
            println!("again: {} ({:?})", xtv::checks::c17::leak_check(), t.elapsed());
            {
                let b: Box<[u8; 4321]> = Box::new([7u8; 4321]);
                let p = Box::into_raw(b);
                std::hint::black_box(p);
            }
            println!("second leak: {}", xtv::checks::c17::leak_check());
            println!("again: {}", xtv::checks::c17::leak_check());
            drop(filler);
            0
        }
        Some("fuzz-corpus") => match xtv::fuzzglue::write_corpus(args.get(2).map(String::as_str).unwrap_or(""), std::path::Path::new(args.get(3).map(String::as_str).unwrap_or("."))) {
            Ok(n) => {
                println!("wrote {} seed inputs", n);
                0
            }
            Err(e) => {
                eprintln!("{}", e);
                2
            }
        },
        Some("c18probe") => {
            xtv::checks::c18::probe();
            0
        }
        Some("list") => {
            for c in &checks {
                println!("{}", c.id());
            }
            0
        }
        _ => {
            eprintln!("usage: xtv run <ID> <tier> | replay <path> | selftest [n] | list");
            2
        }
    };
    let _ = hash_of(&1u8);
    std::process::exit(code);
}
