//! Small helpers: hex, hashing, style tapes.

use std::hash::{Hash, Hasher};

pub fn hex(b: &[u8]) -> String {
    let mut s = String::with_capacity(b.len() * 2);
    for x in b {
        s.push_str(&format!("{:02x}", x));
    }
    s
}

pub fn unhex(s: &str) -> Option<Vec<u8>> {
    if s.len() % 2 != 0 {
        return None;
    }
    (0..s.len() / 2).map(|i| u8::from_str_radix(s.get(2 * i..2 * i + 2)?, 16).ok()).collect()
}

/// Stable 64-bit hash (FNV-1a) so that results do not depend on std's hasher.
#[derive(Clone, Copy)]
pub struct Fnv(pub u64);

impl Default for Fnv {
    fn default() -> Self {
        Fnv(0xcbf29ce484222325)
    }
}

impl Hasher for Fnv {
    fn finish(&self) -> u64 {
        self.0
    }
    fn write(&mut self, bytes: &[u8]) {
        for b in bytes {
            self.0 ^= *b as u64;
            self.0 = self.0.wrapping_mul(0x100000001b3);
        }
    }
}

pub fn hash_of<T: Hash>(t: &T) -> u64 {
    let mut h = Fnv::default();
    t.hash(&mut h);
    h.finish()
}

pub fn hash_bytes(parts: &[&[u8]]) -> u64 {
    let mut h = Fnv::default();
    for p in parts {
        h.write(&(p.len() as u64).to_le_bytes());
        h.write(p);
    }
    h.finish()
}

/// splitmix64, used only to derive sub-seeds from VERIF_SEED.
pub fn mix(mut x: u64) -> u64 {
    x = x.wrapping_add(0x9e3779b97f4a7c15);
    let mut z = x;
    z = (z ^ (z >> 30)).wrapping_mul(0xbf58476d1ce4e5b9);
    z = (z ^ (z >> 27)).wrapping_mul(0x94d049bb133111eb);
    z ^ (z >> 31)
}

pub fn seed_bytes(seed: u64) -> [u8; 32] {
    let mut out = [0u8; 32];
    let mut s = seed;
    for i in 0..4 {
        s = mix(s);
        out[i * 8..i * 8 + 8].copy_from_slice(&s.to_le_bytes());
    }
    out
}

/// A tape of style choices drawn by proptest. Exhausted tapes answer 0 (the
/// canonical choice) unless `cyclic`.
#[derive(Clone, Debug)]
pub struct Style {
    pub tape: Vec<u8>,
    pub cyclic: bool,
}

impl Style {
    pub fn canonical() -> Style {
        Style { tape: vec![], cyclic: false }
    }
    pub fn to_json(&self) -> serde_json::Value {
        serde_json::json!({"tape": hex(&self.tape), "cyclic": self.cyclic})
    }
    pub fn from_json(j: &serde_json::Value) -> Option<Style> {
        Some(Style { tape: unhex(j.get("tape")?.as_str()?)?, cyclic: j.get("cyclic")?.as_bool()? })
    }
}

pub struct Tape<'a> {
    data: &'a [u8],
    cyclic: bool,
    pos: usize,
}

impl<'a> Tape<'a> {
    pub fn new(style: &'a Style) -> Tape<'a> {
        Tape { data: &style.tape, cyclic: style.cyclic, pos: 0 }
    }
    pub fn next(&mut self) -> u8 {
        if self.data.is_empty() {
            return 0;
        }
        let b = if self.pos < self.data.len() {
            self.data[self.pos]
        } else if self.cyclic {
            self.data[self.pos % self.data.len()]
        } else {
            0
        };
        self.pos += 1;
        b
    }
    /// A choice in 0..n, monotone in the tape byte (0 stays 0).
    pub fn pick(&mut self, n: usize) -> usize {
        (self.next() as usize * n) >> 8
    }
    pub fn flag(&mut self) -> bool {
        self.next() >= 128
    }
}

pub fn style_strategy() -> proptest::strategy::BoxedStrategy<Style> {
    use proptest::prelude::*;
    prop_oneof![
        1 => Just(Style::canonical()),
        3 => (proptest::collection::vec(any::<u8>(), 1..200), any::<bool>()).prop_map(|(tape, cyclic)| Style { tape, cyclic }),
    ]
    .boxed()
}

/// Truncates a string for display in samples.
pub fn brief_bytes(b: &[u8]) -> String {
    let cut = b.len().min(160);
    let mut s = String::new();
    for &c in &b[..cut] {
        if (0x20..0x7f).contains(&c) && c != b'\\' {
            s.push(c as char);
        } else if c == b'\n' {
            s.push_str("\\n");
        } else {
            s.push_str(&format!("\\x{:02x}", c));
        }
    }
    if b.len() > cut {
        s.push_str(&format!("…({} bytes)", b.len()));
    }
    s
}

pub fn is_prefix(a: &[u8], b: &[u8]) -> bool {
    b.len() >= a.len() && &b[..a.len()] == a
}

pub fn prefix_comparable(a: &[u8], b: &[u8]) -> bool {
    is_prefix(a, b) || is_prefix(b, a)
}
