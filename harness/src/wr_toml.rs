//! TOML spelling writer.

use crate::model::Val;
use crate::util::{Style, Tape};
use crate::wr_json::spell_float;

fn bare_key_ok(s: &str) -> bool {
    !s.is_empty() && s.bytes().all(|c| c.is_ascii_alphanumeric() || c == b'_' || c == b'-')
}

fn toml_literal_char_ok(c: char) -> bool {
    let u = c as u32;
    c == '\t' || (0x20..=0x7e).contains(&u) || u >= 0x80
}

fn write_basic(s: &str, tape: &mut Tape, out: &mut String, multiline: bool) {
    out.push_str(if multiline { "\"\"\"\n" } else { "\"" });
    for c in s.chars() {
        let u = c as u32;
        let named = match c {
            '\u{8}' => Some("\\b"),
            '\t' => Some("\\t"),
            '\n' => Some("\\n"),
            '\u{c}' => Some("\\f"),
            '\r' => Some("\\r"),
            '"' => Some("\\\""),
            '\\' => Some("\\\\"),
            _ => None,
        };
        let must = (u < 0x20 && c != '\t') || u == 0x7f || c == '"' || c == '\\';
        let must = must && !(multiline && c == '\n');
        let choice = tape.pick(4);
        if multiline && c == '\n' && choice < 3 {
            out.push('\n');
        } else if must || choice == 3 {
            if let (Some(n), true) = (named, choice < 2 || must && choice < 3) {
                out.push_str(n);
            } else if u <= 0xffff && tape.flag() {
                out.push_str(&format!("\\u{:04X}", u));
            } else if u <= 0xffff {
                out.push_str(&format!("\\u{:04x}", u));
            } else {
                out.push_str(&format!("\\U{:08X}", u));
            }
        } else {
            out.push(c);
        }
    }
    out.push_str(if multiline { "\"\"\"" } else { "\"" });
}

fn write_string(s: &str, tape: &mut Tape, out: &mut String, allow_multiline: bool) {
    let c = tape.pick(4);
    let lit_ok = s.chars().all(|c| toml_literal_char_ok(c) && c != '\'');
    let ml_lit_ok = s.chars().all(|c| (toml_literal_char_ok(c) || c == '\n') && c != '\'');
    if c == 1 && lit_ok {
        out.push('\'');
        out.push_str(s);
        out.push('\'');
    } else if c == 2 && allow_multiline {
        write_basic(s, tape, out, true);
    } else if c == 3 && allow_multiline && ml_lit_ok {
        out.push_str("'''\n");
        out.push_str(s);
        out.push_str("'''");
    } else {
        write_basic(s, tape, out, false);
    }
}

fn write_key(k: &Val, tape: &mut Tape, out: &mut String) {
    let s = match k {
        Val::Str(s) => s,
        other => panic!("TOML writer: non-string key {:?}", other),
    };
    let c = tape.pick(3);
    if bare_key_ok(s) && c != 2 {
        out.push_str(s);
    } else if c == 1 && s.chars().all(|c| toml_literal_char_ok(c) && c != '\'') {
        out.push('\'');
        out.push_str(s);
        out.push('\'');
    } else {
        write_basic(s, tape, out, false);
    }
}

fn underscored(digits: &str, tape: &mut Tape) -> String {
    if digits.len() < 2 || tape.pick(4) != 3 {
        return digits.to_string();
    }
    let mut out = String::new();
    for (i, c) in digits.chars().enumerate() {
        if i > 0 && tape.flag() {
            out.push('_');
        }
        out.push(c);
    }
    out
}

fn write_int(i: i128, tape: &mut Tape, out: &mut String) {
    let c = tape.pick(6);
    if i >= 0 && c == 1 {
        out.push_str("0x");
        let d = if tape.flag() { format!("{:x}", i) } else { format!("{:X}", i) };
        out.push_str(&underscored(&d, tape));
    } else if i >= 0 && c == 2 {
        out.push_str("0o");
        out.push_str(&underscored(&format!("{:o}", i), tape));
    } else if i >= 0 && c == 3 {
        out.push_str("0b");
        out.push_str(&underscored(&format!("{:b}", i), tape));
    } else if i >= 0 && c == 4 {
        out.push('+');
        out.push_str(&underscored(&i.to_string(), tape));
    } else if i < 0 {
        out.push('-');
        out.push_str(&underscored(&i.unsigned_abs().to_string(), tape));
    } else {
        out.push_str(&underscored(&i.to_string(), tape));
    }
}

fn write_float(f: f64, tape: &mut Tape, out: &mut String) {
    if f.is_nan() {
        out.push_str(["nan", "+nan", "-nan"][tape.pick(3)]);
    } else if f.is_infinite() {
        if f > 0.0 {
            out.push_str(["inf", "+inf"][tape.pick(2)]);
        } else {
            out.push_str("-inf");
        }
    } else {
        // TOML floats: no leading '.', no trailing '.', exponent ok
        let forms = [0usize, 1, 2, 3, 4, 5, 6, 7];
        let s = spell_float(f, forms[tape.pick(forms.len())]);
        out.push_str(&s);
    }
}

fn write_inline(v: &Val, tape: &mut Tape, out: &mut String, top: bool) {
    match v {
        Val::Bool(b) => out.push_str(if *b { "true" } else { "false" }),
        Val::Int(i) => write_int(*i, tape, out),
        Val::Float(f) => write_float(*f, tape, out),
        Val::Str(s) => write_string(s, tape, out, top),
        Val::Datetime(s) => out.push_str(s),
        Val::Seq(items) => {
            let multi = top && tape.pick(3) == 1;
            out.push('[');
            for (i, x) in items.iter().enumerate() {
                if i > 0 {
                    out.push(',');
                }
                out.push_str(if multi { "\n  " } else if i > 0 { " " } else { "" });
                write_inline(x, tape, out, false);
            }
            if multi && !items.is_empty() {
                out.push_str(if tape.flag() { ",\n" } else { "\n" });
            }
            out.push(']');
        }
        Val::Map(entries) => {
            out.push('{');
            for (i, (k, x)) in entries.iter().enumerate() {
                if i > 0 {
                    out.push_str(", ");
                } else {
                    out.push(' ');
                }
                write_key(k, tape, out);
                out.push_str(" = ");
                write_inline(x, tape, out, false);
            }
            out.push_str(if entries.is_empty() { "}" } else { " }" });
        }
        other => panic!("TOML writer: unsupported value {:?}", other),
    }
}

fn is_table_array(v: &Val) -> bool {
    matches!(v, Val::Seq(items) if !items.is_empty() && items.iter().all(|x| matches!(x, Val::Map(_))))
}

/// Decides, per entry, whether it is written as a section. Returns the
/// reordered table (plain entries first, then sections, stable) together with
/// the section flags; nested tables are processed recursively.
fn plan(v: &Val, tape: &mut Tape, section_allowed: bool) -> (Val, Vec<bool>) {
    match v {
        Val::Map(entries) => {
            let mut plain = vec![];
            let mut sect = vec![];
            for (k, x) in entries {
                let as_section = section_allowed && (matches!(x, Val::Map(_)) || is_table_array(x)) && tape.pick(3) != 2;
                if as_section {
                    sect.push((k.clone(), x.clone()));
                } else {
                    plain.push((k.clone(), x.clone()));
                }
            }
            let n_plain = plain.len();
            plain.extend(sect);
            let flags = (0..plain.len()).map(|i| i >= n_plain).collect();
            (Val::Map(plain), flags)
        }
        _ => unreachable!(),
    }
}

fn write_table(v: &Val, path: &mut Vec<String>, tape: &mut Tape, out: &mut String) -> Val {
    let (planned, flags) = plan(v, tape, true);
    let entries = match planned {
        Val::Map(e) => e,
        _ => unreachable!(),
    };
    let mut result = vec![];
    for ((k, x), is_section) in entries.into_iter().zip(flags) {
        if !is_section {
            write_key(&k, tape, out);
            out.push_str(" = ");
            write_inline(&x, tape, out, true);
            out.push('\n');
            result.push((k, x));
        } else {
            let mut ks = String::new();
            write_key(&k, tape, &mut ks);
            path.push(ks);
            match &x {
                Val::Map(_) => {
                    out.push_str(&format!("\n[{}]\n", path.join(".")));
                    let sub = write_table(&x, path, tape, out);
                    result.push((k, sub));
                }
                Val::Seq(items) => {
                    let mut subs = vec![];
                    for it in items {
                        out.push_str(&format!("\n[[{}]]\n", path.join(".")));
                        subs.push(write_table(it, path, tape, out));
                    }
                    result.push((k, Val::Seq(subs)));
                }
                _ => unreachable!(),
            }
            path.pop();
        }
    }
    Val::Map(result)
}

pub fn supports(v: &Val) -> bool {
    matches!(v, Val::Map(_))
        && !v.any(&|n| match n {
            Val::Null | Val::Bytes(_) | Val::Ext(..) | Val::F32(_) => true,
            Val::Int(i) => *i > i64::MAX as i128,
            Val::Map(m) => m.iter().any(|(k, _)| !matches!(k, Val::Str(_))),
            _ => false,
        })
}

/// Writes a TOML document. Because TOML syntax forces `[section]` bodies after
/// the plain key/values of the same table, the value actually denoted by the
/// text may be a (stable) reordering of `v`; it is returned with the text.
pub fn write_doc(v: &Val, style: &Style) -> (String, Val) {
    let mut tape = Tape::new(style);
    let mut out = String::new();
    match tape.pick(4) {
        1 => out.push_str("# comment\n"),
        2 => out.push('\n'),
        _ => {}
    }
    let mut path = vec![];
    let model = write_table(v, &mut path, &mut tape, &mut out);
    (out, model)
}
