//! Parallel, crash-isolated runner: shards checks over worker processes,
//! merges their records into evidence, writes replays.

use std::cell::RefCell;
use std::collections::{BTreeMap, HashSet};
use std::fmt::Debug;
use std::io::Write;
use std::path::{Path, PathBuf};
use std::process::{Command, Stdio};
use std::time::{Duration, Instant};

use proptest::strategy::Strategy;
use proptest::test_runner::{Config, RngSeed, TestCaseError, TestError, TestRunner};
use serde_json::{json, Value as J};

use crate::util::{hex, mix, unhex};

/// Root of the verification tree: $XTV_ROOT (set by ./check to its own
/// directory, so that a snapshot of /verif is self-contained), else /verif.
pub fn verif_root() -> String {
    std::env::var("XTV_ROOT").ok().filter(|s| !s.is_empty()).unwrap_or_else(|| "/verif".to_string())
}

#[derive(Clone, Copy, Debug, PartialEq)]
pub enum Tier {
    Quick,
    Thorough,
}

impl Tier {
    pub fn name(self) -> &'static str {
        match self {
            Tier::Quick => "quick",
            Tier::Thorough => "thorough",
        }
    }
    pub fn parse(s: &str) -> Option<Tier> {
        match s {
            "quick" => Some(Tier::Quick),
            "thorough" => Some(Tier::Thorough),
            _ => None,
        }
    }
    pub fn pick<T>(self, q: T, t: T) -> T {
        match self {
            Tier::Quick => q,
            Tier::Thorough => t,
        }
    }
}

#[derive(Clone, Debug)]
pub struct Unit {
    pub name: &'static str,
    pub shards: u32,
    /// cases per shard for generated units; informational for enumerations
    pub cases: u64,
    pub exhaustive: bool,
}

impl Unit {
    pub fn gen(name: &'static str, shards: u32, cases: u64) -> Unit {
        Unit { name, shards, cases, exhaustive: false }
    }
    pub fn enumerate(name: &'static str, shards: u32) -> Unit {
        Unit { name, shards, cases: 0, exhaustive: true }
    }
}

#[derive(Clone, Debug)]
pub struct Failure {
    pub message: String,
    pub case: J,
}

/// Incremented on every counted case; a watchdog thread in each worker turns
/// a stalled heartbeat into exit code 3.
pub static HEARTBEAT: std::sync::atomic::AtomicU64 = std::sync::atomic::AtomicU64::new(0);

pub fn beat() {
    HEARTBEAT.fetch_add(1, std::sync::atomic::Ordering::Relaxed);
}

pub fn start_watchdog(limit_secs: u64) {
    std::thread::spawn(move || {
        let mut last = HEARTBEAT.load(std::sync::atomic::Ordering::Relaxed);
        let mut stalled = 0u64;
        loop {
            std::thread::sleep(Duration::from_secs(1));
            let now = HEARTBEAT.load(std::sync::atomic::Ordering::Relaxed);
            if now == last {
                stalled += 1;
                if stalled >= limit_secs {
                    eprintln!("watchdog: no progress for {} s", limit_secs);
                    std::process::exit(3);
                }
            } else {
                stalled = 0;
                last = now;
            }
        }
    });
}

#[derive(Default)]
pub struct Recorder {
    pub evaluations: u64,
    pub nontrivial: HashSet<u64>,
    pub classes: BTreeMap<String, u64>,
    pub excluded_known: BTreeMap<String, u64>,
    pub samples: Vec<J>,
    pub rejects: u64,
    pub failure: Option<Failure>,
    pub frozen: bool,
    pub trace: Option<PathBuf>,
    pub notes: Vec<String>,
    pub leak_check_every_case: bool,
    sample_tick: u64,
}

impl Recorder {
    /// Counts one evaluated case. `nontrivial` carries the distinctness hash
    /// when the case satisfies the property's non-triviality rule.
    pub fn count(&mut self, nontrivial: Option<u64>) {
        beat();
        if self.frozen {
            return;
        }
        self.evaluations += 1;
        if let Some(h) = nontrivial {
            self.nontrivial.insert(h);
        }
    }
    pub fn class(&mut self, name: &str) {
        if self.frozen {
            return;
        }
        *self.classes.entry(name.to_string()).or_insert(0) += 1;
    }
    pub fn class_n(&mut self, name: &str, n: u64) {
        if self.frozen {
            return;
        }
        *self.classes.entry(name.to_string()).or_insert(0) += n;
    }
    pub fn known(&mut self, class: &str) {
        if self.frozen {
            return;
        }
        *self.excluded_known.entry(class.to_string()).or_insert(0) += 1;
    }
    pub fn reject(&mut self) {
        if self.frozen {
            return;
        }
        self.rejects += 1;
    }
    /// Offers a sample; kept at exponentially spaced ticks.
    pub fn sample(&mut self, f: impl FnOnce() -> J) {
        if self.frozen {
            return;
        }
        self.sample_tick += 1;
        let t = self.sample_tick;
        if self.samples.len() < 10 && (t & (t - 1)) == 0 && t != 2 {
            self.samples.push(f());
        }
    }
    /// Called before executing a case when tracing is on (crash recovery).
    pub fn trace_case(&self, f: impl FnOnce() -> J) {
        beat();
        if let Some(p) = &self.trace {
            let _ = std::fs::write(p, f().to_string());
        }
    }
    pub fn tracing(&self) -> bool {
        self.trace.is_some()
    }
    pub fn fail(&mut self, message: String, case: J) {
        if self.failure.is_none() {
            self.failure = Some(Failure { message, case });
        }
        self.frozen = true;
    }
    pub fn failed(&self) -> bool {
        self.failure.is_some()
    }

    pub fn to_json(&self) -> J {
        let mut hashes = Vec::with_capacity(self.nontrivial.len() * 8);
        let mut sorted: Vec<u64> = self.nontrivial.iter().copied().collect();
        sorted.sort();
        for h in sorted {
            hashes.extend(h.to_le_bytes());
        }
        json!({
            "evaluations": self.evaluations,
            "nontrivial": hex(&hashes),
            "classes": self.classes,
            "excluded_known": self.excluded_known,
            "samples": self.samples,
            "rejects": self.rejects,
            "notes": self.notes,
            "failure": self.failure.as_ref().map(|f| json!({"message": f.message, "case": f.case})),
        })
    }
}

/// Runs a proptest strategy for `cases` cases against `f`; on failure the
/// shrunk case is recorded in `rec`.
pub fn run_prop<C: Debug + Clone, S: Strategy<Value = C>>(
    rec: &mut Recorder,
    seed: u64,
    cases: u64,
    strat: S,
    to_json: impl Fn(&C) -> J,
    f: impl Fn(&C, &mut Recorder) -> Result<(), String>,
) {
    if rec.failed() {
        return;
    }
    let mut runner = TestRunner::new(Config {
        cases: cases.min(u32::MAX as u64) as u32,
        failure_persistence: None,
        rng_seed: RngSeed::Fixed(seed),
        max_shrink_iters: 4000,
        // minimisation is a convenience: it never changes a verdict, and with
        // process-spawning cases 4000 iterations can take a quarter of an hour
        max_shrink_time: 120_000,
        ..Config::default()
    });
    let cell = RefCell::new(std::mem::take(rec));
    let result = runner.run(&strat, |case| {
        let mut r = cell.borrow_mut();
        if r.tracing() {
            r.trace_case(|| to_json(&case));
        }
        match f(&case, &mut r) {
            Ok(()) => Ok(()),
            Err(msg) => {
                r.frozen = true;
                Err(TestCaseError::fail(msg))
            }
        }
    });
    *rec = cell.into_inner();
    match result {
        Ok(()) => {}
        Err(TestError::Fail(reason, value)) => {
            rec.frozen = false;
            rec.fail(reason.message().to_string(), to_json(&value));
        }
        Err(TestError::Abort(reason)) => {
            rec.notes.push(format!("proptest aborted: {}", reason.message()));
        }
    }
}

pub trait Check: Sync {
    fn id(&self) -> &'static str;
    fn level(&self) -> &'static str;
    fn rule(&self) -> String;
    fn assumptions(&self) -> Vec<String>;
    fn units(&self, tier: Tier) -> Vec<Unit>;
    /// Runs one shard of a unit. Cases must be tagged with `"unit"` in their
    /// JSON so that `replay` can dispatch.
    fn run_unit(&self, unit: &Unit, shard: u32, seed: u64, tier: Tier, rec: &mut Recorder);
    /// Re-executes one concrete case through the plain oracle. `Err` = the
    /// violation reproduces.
    fn replay(&self, case: &J) -> Result<(), String>;
    /// Class names that must have a non-zero count (generator health check).
    fn required_classes(&self, _tier: Tier) -> Vec<&'static str> {
        vec![]
    }
    /// Re-confirms a listed known finding on its stored example: true when the
    /// finding still reproduces.
    fn confirm_known(&self, _finding: &Known) -> bool {
        false
    }
    fn needs_cli(&self) -> bool {
        false
    }
    /// Seconds without any counted case before a worker gives up (exit 3).
    fn watchdog_secs(&self) -> u64 {
        300
    }
    /// Extra keys for the coverage object.
    fn extra_coverage(&self, _tier: Tier) -> J {
        json!({})
    }
}

#[derive(Clone, Debug)]
pub struct Known {
    pub property: String,
    pub id: String,
    pub status: String,
    pub class: String,
    pub what: String,
    pub example: J,
}

pub fn load_known(property: &str) -> Vec<Known> {
    let path = format!("{}/known_findings.jsonl", verif_root());
    let text = std::fs::read_to_string(path).unwrap_or_default();
    let mut out = vec![];
    for line in text.lines() {
        let line = line.trim();
        if line.is_empty() || line.starts_with('#') {
            continue;
        }
        if let Ok(j) = serde_json::from_str::<J>(line) {
            let g = |k: &str| j.get(k).and_then(|v| v.as_str()).unwrap_or("").to_string();
            let props: Vec<String> = match j.get("property") {
                Some(J::String(s)) => vec![s.clone()],
                Some(J::Array(a)) => a.iter().filter_map(|x| x.as_str().map(String::from)).collect(),
                _ => vec![],
            };
            if props.iter().any(|p| p == property) {
                out.push(Known {
                    property: property.to_string(),
                    id: g("id"),
                    status: g("status"),
                    class: g("class"),
                    what: g("what"),
                    example: j.get("example").cloned().unwrap_or(J::Null),
                });
            }
        }
    }
    out
}

/// True when `class` is listed as a *known* (not fixed) finding for `property`.
pub fn is_known_class(property: &str, class: &str) -> bool {
    thread_local! {
        static CACHE: RefCell<BTreeMap<String, Vec<Known>>> = const { RefCell::new(BTreeMap::new()) };
    }
    CACHE.with(|c| {
        let mut c = c.borrow_mut();
        let list = c.entry(property.to_string()).or_insert_with(|| load_known(property));
        list.iter().any(|k| k.status == "known" && k.class == class)
    })
}

pub fn seed_from_env() -> u64 {
    std::env::var("VERIF_SEED").ok().and_then(|s| s.trim().parse::<i128>().ok()).map(|v| v as u64).unwrap_or(20260926)
}

pub fn shard_seed(base: u64, id: &str, unit: &str, shard: u32) -> u64 {
    let mut s = mix(base);
    for b in id.bytes().chain(unit.bytes()) {
        s = mix(s ^ b as u64);
    }
    mix(s ^ ((shard as u64) << 32))
}

fn jobs() -> usize {
    std::env::var("XTV_JOBS").ok().and_then(|s| s.parse().ok()).unwrap_or_else(|| {
        std::thread::available_parallelism().map(|n| n.get()).unwrap_or(8).min(16)
    })
}

pub fn tmp_dir() -> PathBuf {
    let p = PathBuf::from(format!("{}/.build/tmp/{}", verif_root(), std::process::id()));
    let _ = std::fs::create_dir_all(&p);
    p
}

struct Job {
    unit: usize,
    shard: u32,
    child: std::process::Child,
    out: PathBuf,
    started: Instant,
}

pub struct ShardResult {
    pub unit: usize,
    pub shard: u32,
    pub record: Option<J>,
    pub status: String,
}

fn spawn_worker(exe: &Path, id: &str, tier: Tier, unit: usize, shard: u32, out: &Path, trace: Option<&Path>) -> std::process::Child {
    let mut cmd = Command::new(exe);
    cmd.arg("worker").arg(id).arg(tier.name()).arg(unit.to_string()).arg(shard.to_string()).arg(out);
    if let Some(t) = trace {
        cmd.arg(t);
    }
    cmd.stdin(Stdio::null()).stdout(Stdio::null()).stderr(Stdio::inherit());
    unsafe {
        use std::os::unix::process::CommandExt;
        cmd.pre_exec(|| {
            libc::prctl(libc::PR_SET_PDEATHSIG, libc::SIGKILL);
            Ok(())
        });
    }
    cmd.spawn().expect("spawn worker")
}

/// Entry point of a worker process.
pub fn worker_main(check: &dyn Check, tier: Tier, unit_idx: usize, shard: u32, out: &Path, trace: Option<PathBuf>) {
    crate::xtapi::install_panic_hook();
    let units = check.units(tier);
    let unit = &units[unit_idx];
    let seed = shard_seed(seed_from_env(), check.id(), unit.name, shard);
    let mut rec = Recorder { trace, ..Recorder::default() };
    start_watchdog(check.watchdog_secs());
    check.run_unit(unit, shard, seed, tier, &mut rec);
    let mut f = std::fs::File::create(out).expect("create worker output");
    f.write_all(rec.to_json().to_string().as_bytes()).expect("write worker output");
}

/// Runs `xtv replay <path>` with a wall-clock limit; returns Some(success) or
/// None when it had to be killed.
fn confirm_replay(exe: &Path, path: &Path, limit: Duration) -> Option<bool> {
    let mut child = Command::new(exe).arg("replay").arg(path).stdin(Stdio::null()).stdout(Stdio::null()).stderr(Stdio::null()).spawn().ok()?;
    let start = Instant::now();
    loop {
        match child.try_wait() {
            Ok(Some(st)) => return Some(st.success()),
            Ok(None) => {
                if start.elapsed() > limit {
                    let _ = child.kill();
                    let _ = child.wait();
                    return None;
                }
                std::thread::sleep(Duration::from_millis(50));
            }
            Err(_) => return Some(false),
        }
    }
}

pub struct RunSummary {
    pub exit: i32,
}

fn replay_path(id: &str, case: &J) -> PathBuf {
    let h = crate::util::hash_bytes(&[case.to_string().as_bytes()]);
    let dir = PathBuf::from(format!("{}/replays/{}", verif_root(), id));
    let _ = std::fs::create_dir_all(&dir);
    dir.join(format!("found-{:016x}.json", h))
}

pub fn write_replay(id: &str, message: &str, case: &J) -> PathBuf {
    let p = replay_path(id, case);
    let doc = json!({"property": id, "message": message, "case": case});
    let _ = std::fs::write(&p, serde_json::to_string_pretty(&doc).unwrap());
    p
}

/// Runs the committed regression replays of a property in a subprocess.
fn run_regressions(exe: &Path, id: &str) -> (usize, Vec<(PathBuf, String)>) {
    let dir = PathBuf::from(format!("{}/replays/{}", verif_root(), id));
    let mut n = 0;
    let mut bad = vec![];
    let mut files: Vec<PathBuf> = std::fs::read_dir(&dir)
        .map(|rd| rd.filter_map(|e| e.ok()).map(|e| e.path()).collect())
        .unwrap_or_default();
    files.sort();
    for p in files {
        let name = p.file_name().unwrap().to_string_lossy().to_string();
        if !name.starts_with("reg-") || !name.ends_with(".json") {
            continue;
        }
        n += 1;
        let out = Command::new(exe).arg("replay").arg(&p).stdin(Stdio::null()).output();
        match out {
            Ok(o) if o.status.success() => {}
            Ok(o) => bad.push((p.clone(), format!("status {:?}: {}", o.status.code(), String::from_utf8_lossy(&o.stdout).trim()))),
            Err(e) => bad.push((p.clone(), e.to_string())),
        }
    }
    (n, bad)
}

pub fn run_check(check: &dyn Check, tier: Tier) -> i32 {
    crate::xtapi::install_panic_hook();
    let started = Instant::now();
    let exe = std::env::current_exe().expect("current_exe");
    let id = check.id();
    let seed = seed_from_env();
    let tmp = tmp_dir();
    let units = check.units(tier);
    let mut violations: Vec<(String, PathBuf)> = vec![];
    let mut infra_errors: Vec<String> = vec![];

    // 1. regression replays
    let (n_reg, bad_reg) = run_regressions(&exe, id);
    for (p, why) in &bad_reg {
        println!("regression replay failed: {} ({})", p.display(), why);
        violations.push((format!("regression replay: {}", why), p.clone()));
    }

    // 2. shards
    let mut queue: Vec<(usize, u32)> = vec![];
    for (ui, u) in units.iter().enumerate() {
        for s in 0..u.shards {
            queue.push((ui, s));
        }
    }
    queue.reverse();
    let max_jobs = jobs();
    let shard_limit = Duration::from_secs(
        std::env::var("XTV_SHARD_TIMEOUT").ok().and_then(|s| s.parse().ok()).unwrap_or(tier.pick(1500, 7200)),
    );
    let mut running: Vec<Job> = vec![];
    let mut results: Vec<ShardResult> = vec![];
    while !queue.is_empty() || !running.is_empty() {
        while running.len() < max_jobs && !queue.is_empty() {
            let (ui, s) = queue.pop().unwrap();
            let out = tmp.join(format!("u{}s{}.json", ui, s));
            let child = spawn_worker(&exe, id, tier, ui, s, &out, None);
            running.push(Job { unit: ui, shard: s, child, out, started: Instant::now() });
        }
        let mut i = 0;
        let mut progressed = false;
        while i < running.len() {
            let done = match running[i].child.try_wait() {
                Ok(Some(status)) => Some(if status.success() { "ok".to_string() } else { format!("{:?}", status) }),
                Ok(None) => {
                    if running[i].started.elapsed() > shard_limit {
                        let _ = running[i].child.kill();
                        let _ = running[i].child.wait();
                        Some("timeout".to_string())
                    } else {
                        None
                    }
                }
                Err(e) => Some(format!("wait error {}", e)),
            };
            if let Some(status) = done {
                let job = running.swap_remove(i);
                let record = std::fs::read_to_string(&job.out).ok().and_then(|t| serde_json::from_str::<J>(&t).ok());
                results.push(ShardResult { unit: job.unit, shard: job.shard, record, status });
                progressed = true;
            } else {
                i += 1;
            }
        }
        if !progressed {
            std::thread::sleep(Duration::from_millis(20));
        }
    }
    results.sort_by_key(|r| (r.unit, r.shard));

    // 3. merge
    let mut evaluations = 0u64;
    let mut nontrivial: HashSet<u64> = HashSet::new();
    let mut classes: BTreeMap<String, u64> = BTreeMap::new();
    let mut excluded: BTreeMap<String, u64> = BTreeMap::new();
    let mut samples: Vec<J> = vec![];
    let mut sample_pool: Vec<(u32, J)> = vec![];
    let mut rejects = 0u64;
    let mut per_unit: BTreeMap<String, J> = BTreeMap::new();
    let mut notes: Vec<String> = vec![];
    let mut abnormal: Vec<(usize, u32, String)> = vec![];
    for r in &results {
        let uname = units[r.unit].name;
        match (&r.record, r.status.as_str()) {
            (Some(rec), "ok") => {
                let ev = rec["evaluations"].as_u64().unwrap_or(0);
                evaluations += ev;
                let hs = unhex(rec["nontrivial"].as_str().unwrap_or("")).unwrap_or_default();
                let before = nontrivial.len();
                for c in hs.chunks_exact(8) {
                    // distinctness is per unit: mix the unit index in
                    let h = u64::from_le_bytes(c.try_into().unwrap());
                    nontrivial.insert(mix(h ^ (r.unit as u64).wrapping_mul(0x9e37)));
                }
                let added = nontrivial.len() - before;
                if let Some(o) = rec["classes"].as_object() {
                    for (k, v) in o {
                        *classes.entry(k.clone()).or_insert(0) += v.as_u64().unwrap_or(0);
                    }
                }
                if let Some(o) = rec["excluded_known"].as_object() {
                    for (k, v) in o {
                        *excluded.entry(k.clone()).or_insert(0) += v.as_u64().unwrap_or(0);
                    }
                }
                rejects += rec["rejects"].as_u64().unwrap_or(0);
                if let Some(a) = rec["samples"].as_array() {
                    for (i, s) in a.iter().enumerate() {
                        // spread samples over units and shards
                        let prio = (i as u32) * 64 + r.shard;
                        sample_pool.push((prio, json!({"unit": uname, "case": s})));
                    }
                }
                if let Some(a) = rec["notes"].as_array() {
                    for n in a {
                        notes.push(format!("{}[{}]: {}", uname, r.shard, n.as_str().unwrap_or("")));
                    }
                }
                let e = per_unit.entry(uname.to_string()).or_insert_with(|| json!({"evaluations": 0, "distinct_nontrivial": 0, "shards": 0, "exhaustive": units[r.unit].exhaustive}));
                e["evaluations"] = json!(e["evaluations"].as_u64().unwrap() + ev);
                e["distinct_nontrivial"] = json!(e["distinct_nontrivial"].as_u64().unwrap() + added as u64);
                e["shards"] = json!(e["shards"].as_u64().unwrap() + 1);
                if let Some(f) = rec.get("failure").filter(|f| !f.is_null()) {
                    let msg = f["message"].as_str().unwrap_or("").to_string();
                    let mut case = f["case"].clone();
                    if case.get("unit").is_none() {
                        case["unit"] = json!(uname);
                    }
                    let p = write_replay(id, &msg, &case);
                    println!("failure in unit {} shard {}: {}", uname, r.shard, msg);
                    violations.push((msg, p));
                }
            }
            (_, "timeout") => {
                infra_errors.push(format!("unit {} shard {} exceeded the shard time limit (inconclusive)", uname, r.shard));
            }
            (_, status) => {
                abnormal.push((r.unit, r.shard, status.to_string()));
            }
        }
    }

    // workers that died (signal, sanitizer report, watchdog): attribute each death
    // to a case by a traced re-run and confirm it alone; shards are handled in
    // parallel because a hang costs minutes to confirm
    if !abnormal.is_empty() {
        let confirm_limit = Duration::from_secs(check.watchdog_secs() * 10 + 90);
        let outcomes: Vec<(usize, u32, Result<(String, PathBuf), String>)> = std::thread::scope(|scope| {
            let handles: Vec<_> = abnormal
                .iter()
                .map(|(unit, shard, status)| {
                    let (exe, tmp, units) = (&exe, &tmp, &units);
                    scope.spawn(move || {
                        let uname = units[*unit].name;
                        println!("worker for unit {} shard {} ended abnormally ({}); re-running with tracing", uname, shard, status);
                        let trace = tmp.join(format!("trace-u{}s{}.json", unit, shard));
                        let out = tmp.join(format!("u{}s{}-retry.json", unit, shard));
                        let _ = std::fs::remove_file(&trace);
                        let mut child = spawn_worker(exe, id, tier, *unit, *shard, &out, Some(&trace));
                        let st = child.wait();
                        let crashed_again = !matches!(&st, Ok(s) if s.success());
                        let traced = std::fs::read_to_string(&trace).ok().and_then(|t| serde_json::from_str::<J>(&t).ok());
                        let retry_record = std::fs::read_to_string(&out).ok().and_then(|t| serde_json::from_str::<J>(&t).ok());
                        let retry_failure = retry_record.as_ref().and_then(|r| r.get("failure").filter(|f| !f.is_null()).cloned());
                        if let (false, Some(f)) = (crashed_again, &retry_failure) {
                            // the traced re-run attributed the problem to a case by itself
                            let msg = f["message"].as_str().unwrap_or("").to_string();
                            let mut case = f["case"].clone();
                            if case.get("unit").is_none() {
                                case["unit"] = json!(uname);
                            }
                            let p = write_replay(id, &msg, &case);
                            return (*unit, *shard, Ok((msg, p)));
                        }
                        match (crashed_again, traced) {
                            (true, Some(mut case)) => {
                                if case.get("unit").is_none() {
                                    case["unit"] = json!(uname);
                                }
                                let msg = format!("process died or stopped making progress ({}) while executing this case", status);
                                let p = write_replay(id, &msg, &case);
                                match confirm_replay(exe, &p, confirm_limit) {
                                    Some(true) => {
                                        let _ = std::fs::remove_file(&p);
                                        (*unit, *shard, Err(format!("worker death in unit {} shard {} did not reproduce on the traced case (inconclusive)", uname, shard)))
                                    }
                                    Some(false) => (*unit, *shard, Ok((msg, p))),
                                    None => (*unit, *shard, Ok((format!("no result within {} s when the traced case is run alone ({})", confirm_limit.as_secs(), status), p))),
                                }
                            }
                            _ => (*unit, *shard, Err(format!("worker for unit {} shard {} died ({}) and the death did not reproduce under tracing", uname, shard, status))),
                        }
                    })
                })
                .collect();
            handles.into_iter().map(|h| h.join().expect("attribution thread")).collect()
        });
        for (unit, shard, outcome) in outcomes {
            match outcome {
                Ok((msg, p)) => {
                    println!("failure in unit {} shard {}: {}", units[unit].name, shard, msg);
                    violations.push((msg, p));
                }
                Err(e) => infra_errors.push(e),
            }
        }
    }
    sample_pool.sort_by_key(|(p, _)| *p);
    // a few per unit, lowest priority number first
    let mut per_unit_taken: BTreeMap<String, usize> = BTreeMap::new();
    for (_, s) in sample_pool {
        let u = s["unit"].as_str().unwrap_or("").to_string();
        let n = per_unit_taken.entry(u).or_insert(0);
        if *n < 4 && samples.len() < 16 {
            *n += 1;
            samples.push(s);
        }
    }
    for (msg, p) in &violations {
        samples.push(json!({"violation": msg.lines().next().unwrap_or(""), "replay": p.display().to_string()}));
    }
    if samples.is_empty() {
        samples.push(json!({"note": "no case completed"}));
    }

    // 4. known findings
    let known = load_known(id);
    let mut known_lines = vec![];
    for k in known.iter().filter(|k| k.status == "known") {
        if check.confirm_known(k) {
            known_lines.push(format!("KNOWN-FINDING: property={} {} [{}: {}]", id, k.what, k.id, k.class));
        } else {
            notes.push(format!("known finding {} did not reproduce on its stored example", k.id));
        }
    }

    // 5. health check
    let mut health = vec![];
    if violations.is_empty() {
        for c in check.required_classes(tier) {
            if classes.get(c).copied().unwrap_or(0) == 0 {
                health.push(format!("required class '{}' was never generated", c));
            }
        }
        if evaluations > 0 && rejects * 20 > evaluations + rejects {
            health.push(format!("generator self-validation rejected {} of {} cases", rejects, evaluations + rejects));
        }
        if nontrivial.len() < 2 {
            health.push("fewer than 2 distinct non-trivial cases".to_string());
        }
    }

    // 6. evidence
    let wall = started.elapsed().as_secs_f64();
    let mut coverage = json!({
        "evaluations": evaluations + n_reg as u64,
        "distinct_nontrivial": nontrivial.len(),
        "rule": check.rule(),
        "samples": samples,
        "classes": classes,
        "excluded_known": excluded,
        "generator_rejects": rejects,
        "units": per_unit,
        "regression_replays": n_reg,
        "exhaustive": false,
        "notes": notes,
        "known_findings_reported": known_lines,
        "jobs": max_jobs,
    });
    if let (Some(c), J::Object(extra)) = (coverage.as_object_mut(), check.extra_coverage(tier)) {
        for (k, v) in extra {
            c.insert(k, v);
        }
    }
    let evidence = json!({
        "property_id": id,
        "tier": tier.name(),
        "seed": (seed & 0x7fff_ffff_ffff_ffff),
        "level": check.level(),
        "coverage": coverage,
        "assumptions": check.assumptions(),
        "wall_s": (wall * 100.0).round() / 100.0,
        "violations": violations.len(),
    });
    let evdir = format!("{}/evidence", verif_root());
    let _ = std::fs::create_dir_all(&evdir);
    let _ = std::fs::write(format!("{}/{}.json", evdir, id), serde_json::to_string_pretty(&evidence).unwrap());
    let _ = std::fs::remove_dir_all(&tmp);

    for l in &known_lines {
        println!("{}", l);
    }
    println!(
        "{} {}: {} evaluations, {} distinct non-trivial, {} known-class exclusions, {:.1}s",
        id,
        tier.name(),
        evaluations,
        nontrivial.len(),
        excluded.values().sum::<u64>(),
        wall
    );
    if !violations.is_empty() {
        for (msg, p) in &violations {
            println!("  {}", msg.lines().next().unwrap_or(""));
            println!("VIOLATION property={} replay={}", id, p.display());
        }
        return 1;
    }
    if !infra_errors.is_empty() || !health.is_empty() {
        for e in infra_errors.iter().chain(health.iter()) {
            println!("INCONCLUSIVE: {}", e);
        }
        return 2;
    }
    0
}

/// `xtv replay <path>`: exit 0 when the case passes, 1 (+ VIOLATION line) when
/// the violation reproduces.
pub fn replay_file(checks: &[&dyn Check], path: &Path) -> i32 {
    crate::xtapi::install_panic_hook();
    let text = match std::fs::read_to_string(path) {
        Ok(t) => t,
        Err(e) => {
            println!("cannot read {}: {}", path.display(), e);
            return 2;
        }
    };
    let doc: J = match serde_json::from_str(&text) {
        Ok(d) => d,
        Err(e) => {
            println!("cannot parse {}: {}", path.display(), e);
            return 2;
        }
    };
    let id = doc["property"].as_str().unwrap_or("");
    let check = match checks.iter().find(|c| c.id() == id) {
        Some(c) => *c,
        None => {
            println!("unknown property {:?}", id);
            return 2;
        }
    };
    start_watchdog(check.watchdog_secs() * 10);
    match check.replay(&doc["case"]) {
        Ok(()) => {
            println!("replay passed: {}", path.display());
            0
        }
        Err(msg) => {
            println!("{}", msg);
            println!("VIOLATION property={} replay={}", id, path.display());
            1
        }
    }
}
