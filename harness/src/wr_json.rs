//! JSON spelling writer: model value -> JSON text under a drawn style.

use crate::model::Val;
use crate::util::{Style, Tape};

/// Spells a finite float so that a correctly rounding reader recovers exactly
/// `f`. `form` selects among equivalent spellings; always contains '.', 'e' or
/// 'E' so that the token is a float token.
pub fn spell_float(f: f64, form: usize) -> String {
    debug_assert!(f.is_finite());
    let shortest_e = format!("{:e}", f); // d.ddde-x
    let has_frac = |s: &str| s.contains('.') || s.contains('e') || s.contains('E');
    let fix = |mut s: String| {
        if !has_frac(&s) {
            s.push_str(".0");
        }
        s
    };
    match form % 9 {
        0 => fix(format!("{:?}", f)),
        1 => shortest_e,
        2 => format!("{:E}", f),
        3 => {
            // explicit plus on non-negative exponents
            match shortest_e.split_once('e') {
                Some((m, e)) if !e.starts_with('-') => format!("{}e+{}", m, e),
                _ => shortest_e,
            }
        }
        4 => {
            // plain positional notation, only for moderate magnitudes
            let a = f.abs();
            if a == 0.0 || (1e-30..1e40).contains(&a) {
                fix(format!("{}", f))
            } else {
                shortest_e
            }
        }
        5 => format!("{:.20e}", f), // 21 significant digits of the exact expansion
        6 => format!("{:.17e}", f),
        7 => {
            // trailing zeros in the fraction
            match shortest_e.split_once('e') {
                Some((m, e)) => {
                    let m = if m.contains('.') { format!("{}000", m) } else { format!("{}.000", m) };
                    format!("{}e{}", m, e)
                }
                None => shortest_e,
            }
        }
        _ => {
            // exponent with leading zeros
            match shortest_e.split_once('e') {
                Some((m, e)) => {
                    let (sign, digits) = if let Some(d) = e.strip_prefix('-') { ("-", d) } else { ("", e) };
                    format!("{}E{}00{}", m, sign, digits)
                }
                None => shortest_e,
            }
        }
    }
}

pub fn spell_string(s: &str, tape: &mut Tape, out: &mut String) {
    out.push('"');
    for c in s.chars() {
        let must_escape = (c as u32) < 0x20 || c == '"' || c == '\\';
        let choice = tape.pick(4);
        let short = match c {
            '"' => Some("\\\""),
            '\\' => Some("\\\\"),
            '/' => Some("\\/"),
            '\u{8}' => Some("\\b"),
            '\u{c}' => Some("\\f"),
            '\n' => Some("\\n"),
            '\r' => Some("\\r"),
            '\t' => Some("\\t"),
            _ => None,
        };
        let mode = if must_escape {
            // 0/1: short if available else \u ; 2,3: \u
            if choice < 2 && short.is_some() {
                1
            } else {
                2
            }
        } else {
            match choice {
                0 | 1 => 0,
                2 => {
                    if short.is_some() {
                        1
                    } else {
                        0
                    }
                }
                _ => 2,
            }
        };
        match mode {
            0 => out.push(c),
            1 => out.push_str(short.unwrap()),
            _ => {
                let upper = tape.flag();
                let mut units = [0u16; 2];
                for u in c.encode_utf16(&mut units) {
                    if upper {
                        out.push_str(&format!("\\u{:04X}", u));
                    } else {
                        out.push_str(&format!("\\u{:04x}", u));
                    }
                }
            }
        }
    }
    out.push('"');
}

const WS: &[&str] = &["", " ", "\n", "\t", "\r", "\r\n", "  ", " \n\t "];

fn ws(tape: &mut Tape, out: &mut String) {
    out.push_str(WS[tape.pick(WS.len())]);
}

fn write_val(v: &Val, tape: &mut Tape, out: &mut String) {
    match v {
        Val::Null => out.push_str("null"),
        Val::Bool(b) => out.push_str(if *b { "true" } else { "false" }),
        Val::Int(i) => out.push_str(&i.to_string()),
        Val::Float(f) => {
            let form = tape.pick(9);
            out.push_str(&spell_float(*f, form))
        }
        Val::Str(s) => spell_string(s, tape, out),
        Val::Seq(items) => {
            out.push('[');
            ws(tape, out);
            for (i, x) in items.iter().enumerate() {
                if i > 0 {
                    out.push(',');
                    ws(tape, out);
                }
                write_val(x, tape, out);
                ws(tape, out);
            }
            out.push(']');
        }
        Val::Map(entries) => {
            out.push('{');
            ws(tape, out);
            for (i, (k, x)) in entries.iter().enumerate() {
                if i > 0 {
                    out.push(',');
                    ws(tape, out);
                }
                match k {
                    Val::Str(s) => spell_string(s, tape, out),
                    other => panic!("JSON writer: non-string key {:?}", other),
                }
                ws(tape, out);
                out.push(':');
                ws(tape, out);
                write_val(x, tape, out);
                ws(tape, out);
            }
            out.push('}');
        }
        other => panic!("JSON writer: unsupported value {:?}", other),
    }
}

pub fn supports(v: &Val) -> bool {
    match v {
        Val::Null | Val::Bool(_) | Val::Int(_) | Val::Str(_) => true,
        Val::Float(f) => f.is_finite(),
        Val::Seq(s) => s.iter().all(supports),
        Val::Map(m) => m.iter().all(|(k, v)| matches!(k, Val::Str(_)) && supports(v)),
        _ => false,
    }
}

pub fn write_doc(v: &Val, style: &Style) -> String {
    let mut tape = Tape::new(style);
    let mut out = String::new();
    ws(&mut tape, &mut out);
    write_val(v, &mut tape, &mut out);
    ws(&mut tape, &mut out);
    out
}

/// Separator classes between documents of a JSON stream. `None` (nothing at
/// all) is only legal after a self-delimiting value (string, array, object)
/// or before one... to stay well inside what xt documents ("concatenating
/// objects or arrays with optional whitespace, or other JSON tokens with
/// whitespace") it is used only when the previous document is a collection or
/// string AND the next one is a collection or string.
pub fn write_stream(docs: &[Val], styles: &[Style], seps: &[u8]) -> String {
    let mut out = String::new();
    for (i, d) in docs.iter().enumerate() {
        let style = &styles[i % styles.len().max(1)];
        let mut tape = Tape::new(style);
        let mut text = String::new();
        write_val(d, &mut tape, &mut text);
        if i > 0 {
            let self_delim = |v: &Val| matches!(v, Val::Seq(_) | Val::Map(_) | Val::Str(_));
            let sep = seps.get(i - 1).copied().unwrap_or(1) % 6;
            let s = match sep {
                0 if self_delim(&docs[i - 1]) && self_delim(d) => "",
                0 | 1 => "\n",
                2 => " ",
                3 => "\n\n",
                4 => "\r\n",
                _ => " \t\n",
            };
            out.push_str(s);
        }
        out.push_str(&text);
    }
    if seps.last().copied().unwrap_or(0) % 2 == 1 {
        out.push('\n');
    }
    out
}
