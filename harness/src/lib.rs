pub mod checks;
pub mod cli;
pub mod climodel;
pub mod corpus;
pub mod fuzzglue;
pub mod model;
pub mod oracle;
pub mod rd_json;
pub mod rd_msgpack;
pub mod rd_toml;
pub mod rd_yaml;
pub mod runner;
pub mod sio;
pub mod util;
pub mod wr_json;
pub mod wr_msgpack;
pub mod wr_toml;
pub mod wr_yaml;
pub mod xtapi;

/// Counting allocator (C05 measures peak live heap with it).
#[global_allocator]
static GLOBAL: checks::c05::alloc_count::Counting = checks::c05::alloc_count::Counting;
