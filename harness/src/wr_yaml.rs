//! YAML spelling writer. Produces only spellings whose meaning is the same
//! under the YAML 1.2 core schema and xt's documented behaviour.

use crate::model::Val;
use crate::util::{Style, Tape};
use crate::wr_json::spell_float;

/// Characters that may appear literally inside quoted scalars and literal
/// blocks without being touched by line folding or rejected by the reader.
pub fn safe_printable(c: char) -> bool {
    let u = c as u32;
    (0x20..=0x7e).contains(&u)
        || ((0xa0..=0xd7ff).contains(&u) && u != 0x2028 && u != 0x2029)
        || ((0xe000..=0xfffd).contains(&u) && u != 0xfeff)
        || (0x10000..=0x10ffff).contains(&u) && (u & 0xfffe) != 0xfffe
}

const WORDS: &[&str] = &[
    "true", "false", "null", "yes", "no", "on", "off", "y", "n", "nan", "inf", "infinity", "nil", "none", "t", "f",
];

/// Conservative predicate: the string can be written as a plain scalar in any
/// context and still denotes itself as a string.
pub fn plain_ok(s: &str) -> bool {
    if s.is_empty() || s.len() > 80 {
        return false;
    }
    let mut prev_space = true;
    let mut first = true;
    for c in s.chars() {
        if first {
            if !c.is_alphabetic() || !safe_printable(c) {
                return false;
            }
            first = false;
            prev_space = false;
            continue;
        }
        if c == ' ' {
            if prev_space {
                return false;
            }
            prev_space = true;
        } else if (c.is_alphanumeric() && safe_printable(c)) || c == '_' || c == '-' || c == '.' || c == '/' {
            prev_space = false;
        } else {
            return false;
        }
    }
    if prev_space {
        return false;
    }
    !WORDS.contains(&s.to_lowercase().as_str())
}

fn single_ok(s: &str) -> bool {
    s.chars().all(safe_printable)
}

fn literal_ok(s: &str) -> bool {
    if s.is_empty() {
        return false;
    }
    let first = s.chars().next().unwrap();
    if first == ' ' || first == '\n' {
        return false;
    }
    if !s.chars().all(|c| c == '\n' || safe_printable(c)) {
        return false;
    }
    // no line made only of spaces (but empty lines are fine)
    for line in s.split('\n') {
        if !line.is_empty() && line.chars().all(|c| c == ' ') {
            return false;
        }
    }
    true
}

fn write_double(s: &str, tape: &mut Tape, out: &mut String) {
    out.push('"');
    for c in s.chars() {
        let named = match c {
            '\0' => Some("\\0"),
            '\u{7}' => Some("\\a"),
            '\u{8}' => Some("\\b"),
            '\t' => Some("\\t"),
            '\n' => Some("\\n"),
            '\u{b}' => Some("\\v"),
            '\u{c}' => Some("\\f"),
            '\r' => Some("\\r"),
            '\u{1b}' => Some("\\e"),
            '"' => Some("\\\""),
            '/' => Some("\\/"),
            '\\' => Some("\\\\"),
            '\u{85}' => Some("\\N"),
            '\u{a0}' => Some("\\_"),
            '\u{2028}' => Some("\\L"),
            '\u{2029}' => Some("\\P"),
            _ => None,
        };
        let must = !safe_printable(c) || c == '"' || c == '\\';
        let choice = tape.pick(5);
        let mode = if must {
            if choice <= 1 && named.is_some() {
                1
            } else {
                2 + choice % 3
            }
        } else {
            match choice {
                0 | 1 | 2 => 0,
                3 => {
                    if named.is_some() {
                        1
                    } else {
                        0
                    }
                }
                _ => 2 + tape.pick(3),
            }
        };
        let u = c as u32;
        match mode {
            0 => out.push(c),
            1 => out.push_str(named.unwrap()),
            2 if u <= 0xff => out.push_str(&format!("\\x{:02x}", u)),
            2 | 3 if u <= 0xffff => {
                if tape.flag() {
                    out.push_str(&format!("\\u{:04X}", u))
                } else {
                    out.push_str(&format!("\\u{:04x}", u))
                }
            }
            _ => out.push_str(&format!("\\U{:08x}", u)),
        }
    }
    out.push('"');
}

fn write_single(s: &str, out: &mut String) {
    out.push('\'');
    for c in s.chars() {
        if c == '\'' {
            out.push_str("''");
        } else {
            out.push(c);
        }
    }
    out.push('\'');
}

/// Inline (single-line) spelling of a scalar; `None` for strings means the
/// caller may pick a literal block instead.
fn inline_scalar(v: &Val, tape: &mut Tape, out: &mut String, allow_empty_null: bool) {
    match v {
        Val::Null => {
            let c = tape.pick(if allow_empty_null { 5 } else { 4 });
            out.push_str(["null", "~", "Null", "NULL", ""][c]);
        }
        Val::Bool(b) => {
            let c = tape.pick(3);
            out.push_str(if *b { ["true", "True", "TRUE"][c] } else { ["false", "False", "FALSE"][c] });
        }
        Val::Int(i) => {
            let c = tape.pick(4);
            if *i >= 0 && c == 1 {
                out.push_str(&format!("0x{:x}", i));
            } else if *i >= 0 && c == 2 {
                out.push_str(&format!("0o{:o}", i));
            } else if *i >= 0 && c == 3 {
                if tape.flag() {
                    out.push_str(&format!("0x{:X}", i));
                } else {
                    out.push_str(&format!("+{}", i));
                }
            } else {
                out.push_str(&i.to_string());
            }
        }
        Val::Float(f) => {
            if f.is_nan() {
                out.push_str([".nan", ".NaN", ".NAN"][tape.pick(3)]);
            } else if f.is_infinite() {
                let c = tape.pick(3);
                if *f > 0.0 {
                    out.push_str([".inf", ".Inf", ".INF"][c]);
                } else {
                    out.push_str(["-.inf", "-.Inf", "-.INF"][c]);
                }
            } else {
                let form = tape.pick(9);
                out.push_str(&spell_float(*f, form));
            }
        }
        Val::Str(s) => {
            let c = tape.pick(4);
            if c == 1 && plain_ok(s) {
                out.push_str(s);
            } else if (c == 2 || (c == 1 && !plain_ok(s))) && single_ok(s) {
                write_single(s, out);
            } else if c == 0 && plain_ok(s) && tape.flag() {
                out.push_str(s);
            } else {
                write_double(s, tape, out);
            }
        }
        other => panic!("YAML writer: unsupported scalar {:?}", other),
    }
}

fn wants_literal(v: &Val, tape: &mut Tape) -> bool {
    match v {
        Val::Str(s) if literal_ok(s) && s.len() < 4000 => tape.pick(3) == 2,
        _ => false,
    }
}

/// Writes `|` header and content lines at `indent`; ends with a newline.
fn write_literal(s: &str, indent: usize, out: &mut String) {
    let trailing = s.len() - s.trim_end_matches('\n').len();
    let body = &s[..s.len() - trailing];
    out.push('|');
    match trailing {
        0 => out.push('-'),
        1 => {}
        _ => out.push('+'),
    }
    out.push('\n');
    for line in body.split('\n') {
        if !line.is_empty() {
            out.push_str(&" ".repeat(indent));
            out.push_str(line);
        }
        out.push('\n');
    }
    for _ in 1..trailing {
        out.push('\n');
    }
}

fn write_flow(v: &Val, tape: &mut Tape, out: &mut String) {
    match v {
        Val::Seq(items) => {
            out.push('[');
            for (i, x) in items.iter().enumerate() {
                if i > 0 {
                    out.push_str(", ");
                }
                write_flow(x, tape, out);
            }
            out.push(']');
        }
        Val::Map(entries) => {
            out.push('{');
            for (i, (k, x)) in entries.iter().enumerate() {
                if i > 0 {
                    out.push_str(", ");
                }
                let mut ks = String::new();
                if k.is_collection() {
                    write_flow(k, tape, &mut ks);
                    out.push_str("? ");
                    out.push_str(&ks);
                    out.push_str(" : ");
                } else {
                    inline_scalar(k, tape, &mut ks, false);
                    if ks.len() > 900 {
                        out.push_str("? ");
                        out.push_str(&ks);
                        out.push_str(" : ");
                    } else {
                        out.push_str(&ks);
                        out.push_str(": ");
                    }
                }
                write_flow(x, tape, out);
            }
            out.push('}');
        }
        other => inline_scalar(other, tape, out, false),
    }
}

struct Ctx {
    step: usize,
    flow_depth: usize,
}

/// Writes the value part after "key:" or "-" (cursor is right after the
/// indicator, no space written yet). Always ends with a newline.
fn write_after_indicator(v: &Val, indent: usize, depth: usize, ctx: &Ctx, tape: &mut Tape, out: &mut String, in_seq: bool) {
    let empty_coll = matches!(v, Val::Seq(s) if s.is_empty()) || matches!(v, Val::Map(m) if m.is_empty());
    if v.is_collection() && !empty_coll && depth < ctx.flow_depth {
        let child = indent + ctx.step;
        // compact form "- key: v" / "- - x" for sequence entries
        if in_seq && tape.pick(3) == 1 {
            out.push(' ');
            let pad = 2;
            write_block(v, indent + pad, depth, ctx, tape, out, true);
        } else if !in_seq && matches!(v, Val::Seq(_)) && tape.pick(3) == 1 {
            // sequence at the same indentation as the parent key
            out.push('\n');
            write_block(v, indent, depth, ctx, tape, out, false);
        } else {
            out.push('\n');
            write_block(v, child, depth, ctx, tape, out, false);
        }
    } else if v.is_collection() {
        out.push(' ');
        write_flow(v, tape, out);
        out.push('\n');
    } else if wants_literal(v, tape) {
        out.push(' ');
        if let Val::Str(s) = v {
            write_literal(s, indent + ctx.step, out);
        }
    } else {
        let mut s = String::new();
        inline_scalar(v, tape, &mut s, true);
        if !s.is_empty() {
            out.push(' ');
            out.push_str(&s);
        }
        out.push('\n');
    }
}

/// Writes a non-empty block collection at `indent`. When `inline_first` the
/// cursor is already at column `indent`.
fn write_block(v: &Val, indent: usize, depth: usize, ctx: &Ctx, tape: &mut Tape, out: &mut String, inline_first: bool) {
    let pad = " ".repeat(indent);
    match v {
        Val::Seq(items) => {
            for (i, x) in items.iter().enumerate() {
                if !(i == 0 && inline_first) {
                    out.push_str(&pad);
                }
                out.push('-');
                write_after_indicator(x, indent, depth + 1, ctx, tape, out, true);
            }
        }
        Val::Map(entries) => {
            for (i, (k, x)) in entries.iter().enumerate() {
                if !(i == 0 && inline_first) {
                    out.push_str(&pad);
                }
                let mut ks = String::new();
                let explicit;
                if k.is_collection() {
                    write_flow(k, tape, &mut ks);
                    explicit = true;
                } else {
                    inline_scalar(k, tape, &mut ks, false);
                    explicit = ks.len() > 900 || tape.pick(8) == 7;
                }
                if explicit {
                    out.push_str("? ");
                    out.push_str(&ks);
                    out.push('\n');
                    out.push_str(&pad);
                    out.push(':');
                } else {
                    out.push_str(&ks);
                    out.push(':');
                }
                write_after_indicator(x, indent, depth + 1, ctx, tape, out, false);
            }
        }
        _ => unreachable!(),
    }
}

pub fn supports(v: &Val) -> bool {
    !v.any(&|n| matches!(n, Val::Bytes(_) | Val::Ext(..) | Val::Datetime(_) | Val::F32(_)))
}

#[derive(Clone, Copy, Debug, PartialEq)]
pub enum DocStart {
    /// no marker (only legal for the first document, when the previous one was
    /// closed with `...`, and never with a directive)
    Implicit,
    Marker,
}

/// Writes one document body (no separators). `need_marker` forces `---`.
/// Returns text that always ends with a newline.
pub fn write_doc_body(v: &Val, style: &Style, need_marker: bool, allow_directive: bool) -> String {
    let mut tape = Tape::new(style);
    let mut out = String::new();
    let step = [2, 4, 1, 3][tape.pick(4)];
    let flow_choice = tape.pick(4);
    let flow_depth = match flow_choice {
        0 | 1 => usize::MAX,
        2 => 0,
        _ => 1 + tape.pick(4),
    };
    let ctx = Ctx { step, flow_depth };
    // leading comment / directive
    let lead = tape.pick(6);
    let mut marker = need_marker;
    match lead {
        3 => out.push_str("# comment\n"),
        4 if allow_directive => {
            out.push_str("%YAML 1.2\n");
            marker = true;
        }
        5 => out.push_str("\n# a: b\n\n"),
        _ => {}
    }
    if !marker && tape.pick(3) != 0 {
        marker = true;
    }
    let empty_coll = matches!(v, Val::Seq(s) if s.is_empty()) || matches!(v, Val::Map(m) if m.is_empty());
    if v.is_collection() && !empty_coll && ctx.flow_depth > 0 {
        if marker {
            out.push_str("---");
            out.push_str(["\n", " # c\n", " \n"][tape.pick(3)]);
        }
        // optional uniform indentation of an implicit/explicit root block
        let root_indent = [0, 0, 0, 2, 1][tape.pick(5)];
        write_block(v, root_indent, 0, &ctx, &mut tape, &mut out, false);
    } else if v.is_collection() {
        if marker {
            out.push_str(["---\n", "--- "][tape.pick(2)]);
        }
        write_flow(v, &mut tape, &mut out);
        out.push('\n');
    } else if wants_literal(v, &mut tape) {
        // block scalars at the root always get a marker
        out.push_str("--- ");
        if let Val::Str(s) = v {
            write_literal(s, 1 + tape.pick(3), &mut out);
        }
    } else {
        let mut s = String::new();
        inline_scalar(v, &mut tape, &mut s, false);
        // a plain or quoted root scalar; a root scalar that starts with a
        // character that could begin a directive or marker is always marked
        if marker || s.starts_with('%') || s.starts_with("---") || s.starts_with("...") {
            out.push_str(["---\n", "--- "][tape.pick(2)]);
        }
        out.push_str(&s);
        out.push('\n');
    }
    out
}

pub fn write_doc(v: &Val, style: &Style) -> String {
    write_doc_body(v, style, false, true)
}

/// Writes a multi-document stream. `seps[i]` picks how document i is closed
/// and the next one opened.
pub fn write_stream(docs: &[Val], styles: &[Style], seps: &[u8]) -> String {
    let mut out = String::new();
    let mut prev_closed = true; // at stream start an implicit document is fine
    for (i, d) in docs.iter().enumerate() {
        let style = &styles[i % styles.len().max(1)];
        // libyaml only accepts an implicit (marker-less) document at the very
        // start of the stream
        let body = write_doc_body(d, style, i > 0, prev_closed);
        out.push_str(&body);
        let sep = seps.get(i).copied().unwrap_or(0) % 5;
        match sep {
            1 => {
                out.push_str("...\n");
                prev_closed = true;
            }
            2 => {
                out.push_str("... # end\n");
                prev_closed = true;
            }
            3 => {
                out.push_str("# between\n");
                prev_closed = false;
            }
            4 => {
                out.push_str("...\n\n");
                prev_closed = true;
            }
            _ => prev_closed = false,
        }
    }
    out
}
