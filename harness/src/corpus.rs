//! Byte-level corpora: valid streams from the writers, structure-aware
//! mutations, token sequences, random bytes, adversarial shapes, fixtures.

use proptest::prelude::*;

use crate::model::*;
use crate::util::{style_strategy, Style};
use crate::xtapi::Fmt;
use crate::{wr_json, wr_msgpack, wr_toml, wr_yaml};

/// A stream of documents written in one format.
#[derive(Clone, Debug)]
pub struct Stream {
    pub fmt: Fmt,
    pub docs: Vec<Val>,
    pub bytes: Vec<u8>,
}

pub fn write_stream(fmt: Fmt, docs: &[Val], styles: &[Style], seps: &[u8]) -> Vec<u8> {
    match fmt {
        Fmt::Json => wr_json::write_stream(docs, styles, seps).into_bytes(),
        Fmt::Msgpack => wr_msgpack::write_stream(docs, styles),
        Fmt::Yaml => wr_yaml::write_stream(docs, styles, seps).into_bytes(),
        Fmt::Toml => wr_toml::write_doc(&docs[0], &styles[0]).0.into_bytes(),
    }
}

fn project_doc(v: Val, fmt: Fmt) -> Val {
    crate::oracle::project_source(v, fmt)
}

/// Valid streams (1..=max_docs documents) of a drawn format.
pub fn stream_strategy(max_docs: usize, shape: Shape) -> BoxedStrategy<Stream> {
    (
        prop_oneof![Just(Fmt::Json), Just(Fmt::Msgpack), Just(Fmt::Yaml), Just(Fmt::Toml)],
        proptest::collection::vec(doc_strategy(shape), 1..=max_docs),
        proptest::collection::vec(style_strategy(), 1..3),
        proptest::collection::vec(any::<u8>(), 0..6),
    )
        .prop_map(|(fmt, docs, styles, seps)| {
            let docs: Vec<Val> = if fmt == Fmt::Toml {
                vec![project_doc(docs[0].clone(), fmt)]
            } else {
                docs.into_iter().filter(|d| crate::oracle::writable(d, fmt)).collect()
            };
            let docs = if docs.is_empty() { vec![Val::Seq(vec![])] } else { docs };
            let docs = if fmt == Fmt::Toml && !crate::oracle::writable(&docs[0], fmt) { vec![Val::Map(vec![])] } else { docs };
            let bytes = write_stream(fmt, &docs, &styles, &seps);
            Stream { fmt, docs, bytes }
        })
        .boxed()
}

// ---------------------------------------------------------------------------
// Token alphabets

pub const JSON_TOKENS: &[&[u8]] = &[
    b"{", b"}", b"[", b"]", b",", b":", b"\"a\"", b"\"\"", b"1", b"-1", b"0", b"1.5", b"1e5", b"true", b"false",
    b"null", b" ", b"\n", b"\"\\u00e9\"", b"-", b".", b"e", b"\"", b"\\", b"a", b"\"\xc3\xa9\"", b"\xff",
];

pub const YAML_TOKENS: &[&[u8]] = &[
    b"- ", b"? ", b": ", b":", b"a", b"\"a\"", b"'a'", b"[", b"]", b"{", b"}", b",", b"\n", b" ", b"  ", b"---",
    b"...", b"#", b"&a ", b"*a", b"!t ", b"|", b">", b"%YAML 1.2", b"\t", b"~", b"null", b"1", b"\"", b"'", b"-",
    b"?", b"!!", b"&", b"*", b"\xef\xbb\xbf", b"\r", b"\xc3\xa9",
];

pub const TOML_TOKENS: &[&[u8]] = &[
    b"a", b"=", b"1", b"\"s\"", b"'s'", b"[", b"]", b"[[", b"]]", b".", b",", b"{", b"}", b"\n", b" ", b"#c", b"true",
    b"1979-05-27", b"\"\"\"", b"'''", b"inf", b"0x1", b"1.5", b"+", b"-", b"_", b"\"", b"'", b"\r",
];

pub const MSGPACK_TOKENS: &[&[u8]] = &[
    b"\x90", b"\x91", b"\x92", b"\x80", b"\x81", b"\x82", b"\xa0", b"\xa1", b"\xc0", b"\xc1", b"\xc2", b"\xc3", b"\xc4",
    b"\xcc", b"\xcd", b"\xd9", b"\xda", b"\xdb", b"\xdc", b"\xdd", b"\xde", b"\xdf", b"\xca", b"\xcb", b"\xd4", b"\xc7",
    b"\x00", b"\x01", b"a", b"\xff", b"\x7f",
];

pub fn tokens(fmt: Fmt) -> &'static [&'static [u8]] {
    match fmt {
        Fmt::Json => JSON_TOKENS,
        Fmt::Yaml => YAML_TOKENS,
        Fmt::Toml => TOML_TOKENS,
        Fmt::Msgpack => MSGPACK_TOKENS,
    }
}

/// Number of token sequences of length 0..=max_len.
pub fn token_seq_count(fmt: Fmt, max_len: usize) -> u64 {
    let n = tokens(fmt).len() as u64;
    (0..=max_len as u32).map(|l| n.pow(l)).sum()
}

/// The `index`-th token sequence (shortlex order) over the alphabet.
pub fn token_seq(fmt: Fmt, mut index: u64) -> Vec<u8> {
    let toks = tokens(fmt);
    let n = toks.len() as u64;
    let mut len = 0u32;
    while index >= n.pow(len) {
        index -= n.pow(len);
        len += 1;
    }
    let mut out = vec![];
    let mut parts = vec![];
    for _ in 0..len {
        parts.push((index % n) as usize);
        index /= n;
    }
    for p in parts.iter().rev() {
        out.extend_from_slice(toks[*p]);
    }
    out
}

pub fn random_token_seq_strategy() -> BoxedStrategy<Vec<u8>> {
    (prop_oneof![Just(Fmt::Json), Just(Fmt::Yaml), Just(Fmt::Toml), Just(Fmt::Msgpack)], proptest::collection::vec(any::<u16>(), 1..14))
        .prop_map(|(fmt, idx)| {
            let toks = tokens(fmt);
            let mut out = vec![];
            for i in idx {
                out.extend_from_slice(toks[(i as usize * toks.len()) >> 16]);
            }
            out
        })
        .boxed()
}

// ---------------------------------------------------------------------------
// Mutations

#[derive(Clone, Debug)]
pub enum MutOp {
    Flip(u16, u8),
    Insert(u16, u8),
    Delete(u16, u8),
    Dup(u16, u8),
    Truncate(u16),
    Token(u16, u16),
    Swap(u16, u16),
    SetByte(u16, u8),
    BigLen(u16),
}

fn at(frac: u16, len: usize) -> usize {
    (frac as usize * (len + 1)) >> 16
}

pub fn apply_mutations(mut b: Vec<u8>, ops: &[MutOp], fmt: Fmt) -> Vec<u8> {
    for op in ops {
        let len = b.len();
        match op {
            MutOp::Flip(i, bit) => {
                if len > 0 {
                    let i = at(*i, len - 1);
                    b[i] ^= 1 << (bit % 8);
                }
            }
            MutOp::Insert(i, x) => b.insert(at(*i, len), *x),
            MutOp::Delete(i, n) => {
                if len > 0 {
                    let i = at(*i, len - 1);
                    let n = (*n as usize % 8 + 1).min(len - i);
                    b.drain(i..i + n);
                }
            }
            MutOp::Dup(i, n) => {
                if len > 0 {
                    let i = at(*i, len - 1);
                    let n = (*n as usize % 16 + 1).min(len - i);
                    let piece = b[i..i + n].to_vec();
                    for (k, x) in piece.into_iter().enumerate() {
                        b.insert(i + n + k, x);
                    }
                }
            }
            MutOp::Truncate(i) => b.truncate(at(*i, len)),
            MutOp::Token(i, t) => {
                let toks = tokens(fmt);
                let tok = toks[(*t as usize * toks.len()) >> 16];
                let i = at(*i, len);
                for (k, x) in tok.iter().enumerate() {
                    b.insert(i + k, *x);
                }
            }
            MutOp::Swap(i, j) => {
                if len > 1 {
                    let (i, j) = (at(*i, len - 1), at(*j, len - 1));
                    b.swap(i, j);
                }
            }
            MutOp::SetByte(i, x) => {
                if len > 0 {
                    let i = at(*i, len - 1);
                    b[i] = *x;
                }
            }
            MutOp::BigLen(i) => {
                // overwrite four bytes with a huge big-endian length
                if len >= 4 {
                    let i = at(*i, len - 4);
                    b[i..i + 4].copy_from_slice(&[0xff, 0xff, 0xff, 0xf0]);
                }
            }
        }
    }
    b
}

pub fn mutops_strategy() -> BoxedStrategy<Vec<MutOp>> {
    let op = prop_oneof![
        (any::<u16>(), any::<u8>()).prop_map(|(i, b)| MutOp::Flip(i, b)),
        (any::<u16>(), any::<u8>()).prop_map(|(i, b)| MutOp::Insert(i, b)),
        (any::<u16>(), any::<u8>()).prop_map(|(i, b)| MutOp::Delete(i, b)),
        (any::<u16>(), any::<u8>()).prop_map(|(i, b)| MutOp::Dup(i, b)),
        any::<u16>().prop_map(MutOp::Truncate),
        (any::<u16>(), any::<u16>()).prop_map(|(i, t)| MutOp::Token(i, t)),
        (any::<u16>(), any::<u16>()).prop_map(|(i, t)| MutOp::Token(i, t)),
        (any::<u16>(), any::<u16>()).prop_map(|(i, j)| MutOp::Swap(i, j)),
        (any::<u16>(), any::<u8>()).prop_map(|(i, b)| MutOp::SetByte(i, b)),
        any::<u16>().prop_map(MutOp::BigLen),
    ];
    proptest::collection::vec(op, 1..4).boxed()
}

// ---------------------------------------------------------------------------
// Fixtures

pub fn fixtures() -> Vec<(String, Vec<u8>)> {
    let mut out = vec![];
    if let Ok(rd) = std::fs::read_dir("/repo/tests") {
        let mut paths: Vec<_> = rd.filter_map(|e| e.ok()).map(|e| e.path()).collect();
        paths.sort();
        for p in paths {
            let name = p.file_name().unwrap().to_string_lossy().to_string();
            if name.ends_with(".rs") {
                continue;
            }
            if let Ok(b) = std::fs::read(&p) {
                out.push((name, b));
            }
        }
    }
    out
}

// ---------------------------------------------------------------------------
// Adversarial shapes

pub fn adversarial() -> Vec<(String, Vec<u8>)> {
    let mut out: Vec<(String, Vec<u8>)> = vec![];
    let rep = |s: &[u8], n: usize| -> Vec<u8> { s.iter().cycle().take(s.len() * n).copied().collect() };
    for n in [1_000usize, 10_000, 100_000, 1_000_000] {
        out.push((format!("json_open_brackets_{}", n), rep(b"[", n)));
        out.push((format!("json_open_braces_{}", n), rep(b"{\"a\":", n)));
        out.push((format!("json_nested_closed_{}", n), [rep(b"[", n), rep(b"]", n)].concat()));
        out.push((format!("yaml_flow_open_{}", n), rep(b"[", n)));
        out.push((format!("yaml_flow_map_open_{}", n), rep(b"{a: ", n)));
        out.push((format!("yaml_block_seq_{}", n), [rep(b"- ", n), b"x\n".to_vec()].concat()));
        out.push((format!("msgpack_fixarray_{}", n), [rep(b"\x91", n), b"\xc0".to_vec()].concat()));
        out.push((format!("msgpack_fixmap_key_{}", n), rep(b"\x81", n)));
        out.push((format!("msgpack_fixmap_val_{}", n), rep(b"\x81\xa1k", n)));
        out.push((format!("toml_inline_arrays_{}", n), [b"a = ".to_vec(), rep(b"[", n), rep(b"]", n)].concat()));
        out.push((format!("toml_inline_tables_{}", n), [b"a = ".to_vec(), rep(b"{a = ", n)].concat()));
        out.push((format!("toml_dotted_{}", n), [rep(b"a.", n), b"a = 1".to_vec()].concat()));
    }
    for n in [10_000usize, 200_000] {
        let mut s = b"a:\n".to_vec();
        for i in 0..n.min(3000) {
            s.extend(" ".repeat(i + 1).as_bytes());
            s.extend(b"a:\n");
        }
        out.push((format!("yaml_block_map_deep_{}", n.min(3000)), s));
        out.push((format!("yaml_long_key_{}", n), [rep(b"k", n), b": 1\n".to_vec()].concat()));
        out.push((format!("json_long_string_{}", n), [b"\"".to_vec(), rep(b"\\u0041", n), b"\"".to_vec()].concat()));
        out.push((format!("toml_long_key_{}", n), [rep(b"k", n), b" = 1\n".to_vec()].concat()));
    }
    // MessagePack nests through 16- and 32-bit headers (non-minimal widths)
    for n in [1_000usize, 30_000, 1_000_000] {
        out.push((format!("msgpack_array16_nest_{}", n), [rep(b"\xdc\x00\x01", n), b"\xc0".to_vec()].concat()));
        out.push((format!("msgpack_array32_nest_{}", n), [rep(b"\xdd\x00\x00\x00\x01", n), b"\xc0".to_vec()].concat()));
        out.push((format!("msgpack_map16_nest_{}", n), [rep(b"\xde\x00\x01\xa1k", n), b"\xc0".to_vec()].concat()));
        out.push((format!("msgpack_map32_nest_{}", n), [rep(b"\xdf\x00\x00\x00\x01\xa1k", n), b"\xc0".to_vec()].concat()));
        out.push((format!("msgpack_map32_keynest_{}", n), rep(b"\xdf\x00\x00\x00\x01", n)));
    }
    // chains of headers that each declare a huge count: every one must be
    // refused at once, whatever follows
    // (1000, not 1024: beyond the depth limit the chain is refused for that reason alone)
    for n in [1usize, 200, 1000] {
        out.push((format!("msgpack_chained_array32_max_{}", n), [rep(b"\xdd\xff\xff\xff\xff", n), b"\xc0".to_vec()].concat()));
        out.push((format!("msgpack_chained_map32_max_{}", n), [rep(b"\xdf\xff\xff\xff\xff", n), b"\xc0\xc0".to_vec()].concat()));
        out.push((format!("msgpack_chained_array16_max_{}", n), [rep(b"\xdc\xff\xff", n), b"\x01".to_vec()].concat()));
        out.push((format!("msgpack_sibling_array32_max_{}", n), [b"\xdc\xff\xff".to_vec(), rep(b"\xdd\xff\xff\xff\xff\xc0", n)].concat()));
    }
    // length prefixes
    for (name, bytes) in [
        ("msgpack_array32_max", &b"\xdd\xff\xff\xff\xff"[..]),
        ("msgpack_map32_max", &b"\xdf\xff\xff\xff\xff"[..]),
        ("msgpack_str32_max", &b"\xdb\xff\xff\xff\xffxt"[..]),
        ("msgpack_bin32_max", &b"\xc6\xff\xff\xff\xffxt"[..]),
        ("msgpack_ext32_max", &b"\xc9\xff\xff\xff\xff\x01xt"[..]),
        ("msgpack_array32_max_some", &b"\xdd\xff\xff\xff\xff\x01\x02\x03"[..]),
        ("msgpack_map32_max_some", &b"\xdf\xff\xff\xff\xff\xa1a\x01\xa1b\x02"[..]),
        ("msgpack_array16_max", &b"\xdc\xff\xff\x01"[..]),
        ("msgpack_str16_max", &b"\xda\xff\xffabc"[..]),
        ("msgpack_nested_big", &b"\x91\xdd\x7f\xff\xff\xff\x91\xdf\x7f\xff\xff\xff"[..]),
    ] {
        out.push((name.to_string(), bytes.to_vec()));
    }
    // alias bombs, lone anchors/aliases
    let mut bomb = String::from("a: &a [x,x,x,x,x,x,x,x,x]\n");
    let names = ["a", "b", "c", "d", "e", "f", "g", "h", "i", "j", "k"];
    for w in names.windows(2) {
        bomb.push_str(&format!("{}: &{} [*{p},*{p},*{p},*{p},*{p},*{p},*{p},*{p},*{p}]\n", w[1], w[1], p = w[0]));
    }
    out.push(("yaml_alias_bomb".into(), bomb.into_bytes()));
    for (name, text) in [
        ("yaml_lone_alias", "*y"),
        ("yaml_lone_anchor", "&y"),
        ("yaml_anchor_only_doc", "--- &a\n...\n"),
        ("yaml_alias_key", "&a a: *a\n*a : 1\n"),
        ("yaml_self_alias", "&a [*a]"),
        ("yaml_merge", "a: &a {x: 1}\nb: {<<: *a, y: 2}\n<<: *a\n"),
        ("yaml_tags", "!!binary aGk=\n--- !!set {a, b}\n--- !x y\n--- !!int x\n--- !!float .nan\n--- !!null a\n"),
        ("yaml_nullkey", "~: 1\n? \n: 2\n"),
        ("yaml_complex_key", "? [a, b]\n: 1\n? {c: d}\n: 2\n"),
        ("yaml_dup_key", "a: 1\na: 2\n"),
        ("yaml_bom_docs", "\u{feff}---\na\n...\n\u{feff}---\nb\n"),
        ("yaml_only_markers", "---\n---\n...\n---\n"),
        ("yaml_directives", "%TAG ! tag:x,2000:\n%YAML 1.1\n---\n!a b\n"),
        ("yaml_bad_directive", "%YAML 9.9\n---\na\n"),
        ("yaml_tab_indent", "a:\n\tb: 1\n"),
        ("yaml_enum_like", "!Variant\n- 1\n--- !V {a: 1}\n--- !V x\n"),
        ("yaml_nested_tag", "a: !x !y z\n"),
        ("yaml_big_numbers", "[1e999, -1e999, 0x, 0xffffffffffffffffffffffffffffffffffffffff, 99999999999999999999999999999999999999999999, .inf, -.INF, .NaN, 0o8, +1, 1_0]\n"),
        ("json_big_numbers", "[1e999,-1e999,1e-999,123456789012345678901234567890,-123456789012345678901234567890,0.000000000000000000000000000000000000000000000000000000000000001,1E400,-0]"),
        ("json_surrogates", "[\"\\ud800\",\"\\udc00\",\"\\ud800\\u0041\",\"\\udbff\\udfff\",\"\\ud83d\"]"),
        ("json_nul", "\"a\u{0}b\""),
        ("json_scalars_glued", "truefalse null1 1-1"),
        ("json_dupkey", "{\"a\":1,\"a\":{\"a\":2,\"a\":3}}"),
        ("toml_dates", "a = 1979-05-27T07:32:00Z\nb = 07:32:00\nc = 1979-05-27\nd = [1979-05-27 07:32:00, 0001-01-01]\n"),
        ("toml_specials", "a = inf\nb = -nan\nc = +0.0\nd = 0xffffffffffffffff\ne = 9223372036854775808\n"),
        ("toml_dup", "a = 1\na = 2\n[b]\n[b]\n"),
        ("toml_header_only", "[a]"),
        ("empty", ""),
        ("spaces", "   \n\t\n"),
        ("nul", "\u{0}"),
        ("bom_only", "\u{feff}"),
    ] {
        out.push((name.to_string(), text.as_bytes().to_vec()));
    }
    // long non-ASCII YAML in the four wide encodings: every refill of the
    // re-encoder's output buffer cuts a multi-byte character
    for (k, enc) in ["utf-16le", "utf-16be", "utf-32le", "utf-32be"].into_iter().enumerate() {
        let chars = ['\u{e9}', '\u{20ac}', '\u{1f600}', 'x', '\u{30a2}'];
        let mut text = String::from("- \"");
        for i in 0..(30_000 + 1111 * k) {
            text.push(chars[(i + k + i / 7) % 5]);
        }
        text.push_str("\"\n");
        out.push((format!("yaml_{}_long_multibyte", enc), crate::checks::c07::encode_text(&text, enc, k % 2 == 0)));
        let euro = format!("- \"{}\"\n", "\u{20ac}".repeat(20_000 + k));
        out.push((format!("yaml_{}_long_3byte", enc), crate::checks::c07::encode_text(&euro, enc, k % 2 == 1)));
    }
    out.push(("utf16_bom_only".into(), vec![0xff, 0xfe]));
    out.push(("utf32_bom_only".into(), vec![0, 0, 0xfe, 0xff]));
    out.push(("utf16_odd".into(), vec![0xff, 0xfe, b'a']));
    out.push(("invalid_utf8".into(), vec![b'a', b':', b' ', 0xff, 0xfe, 0xfd]));
    out.push(("msgpack_all_markers".into(), (0x80u8..=0xff).collect()));
    out
}

/// libyaml's scanner re-examines one simple-key candidate per open flow level
/// on every token, so flow nesting of depth n costs O(n^2): 10^5 levels take
/// minutes, 10^6 hours (it does terminate). Such inputs are only given to the
/// YAML parser (explicitly or through detection) up to this depth.
pub const LIBYAML_FLOW_DEPTH_CAP: usize = 20_000;

pub fn libyaml_quadratic(name: &str, bytes: &[u8]) -> bool {
    let flowish = ["json_open_brackets", "json_open_braces", "json_nested_closed", "yaml_flow_open", "yaml_flow_map_open"];
    flowish.iter().any(|p| name.starts_with(p)) && bytes.iter().filter(|b| **b == b'[' || **b == b'{').count() > LIBYAML_FLOW_DEPTH_CAP
}

// ---------------------------------------------------------------------------
// The general byte-input strategy

#[derive(Clone, Debug)]
pub struct BytesCase {
    pub bytes: Vec<u8>,
    pub family: &'static str,
    /// the format the bytes were derived from, if any
    pub origin: Option<Fmt>,
}

pub fn bytes_strategy() -> BoxedStrategy<BytesCase> {
    let fx = fixtures();
    let fixture = if fx.is_empty() {
        Just(BytesCase { bytes: vec![], family: "fixture", origin: None }).boxed()
    } else {
        proptest::sample::select(fx).prop_map(|(_, b)| BytesCase { bytes: b, family: "fixture", origin: None }).boxed()
    };
    let fx2 = fixtures();
    let mutated_fixture = if fx2.is_empty() {
        Just(BytesCase { bytes: vec![], family: "mutated_fixture", origin: None }).boxed()
    } else {
        (proptest::sample::select(fx2), mutops_strategy(), prop_oneof![Just(Fmt::Json), Just(Fmt::Yaml), Just(Fmt::Toml), Just(Fmt::Msgpack)])
            .prop_map(|((_, b), ops, f)| BytesCase { bytes: apply_mutations(b, &ops, f), family: "mutated_fixture", origin: None })
            .boxed()
    };
    prop_oneof![
        5 => stream_strategy(4, Shape::COMMON_NULL).prop_map(|s| BytesCase { bytes: s.bytes, family: "valid_stream", origin: Some(s.fmt) }),
        1 => stream_strategy(3, Shape { allow_null: true, ext_float: true, ext_bytes: true, ext_keys: true, depth: 5, size: 32 })
            .prop_map(|s| BytesCase { bytes: s.bytes, family: "valid_stream_ext", origin: Some(s.fmt) }),
        6 => (stream_strategy(3, Shape::COMMON_NULL), mutops_strategy())
            .prop_map(|(s, ops)| BytesCase { bytes: apply_mutations(s.bytes, &ops, s.fmt), family: "mutated_stream", origin: Some(s.fmt) }),
        2 => (stream_strategy(2, Shape::COMMON_NULL), stream_strategy(2, Shape::COMMON_NULL), any::<u16>(), any::<u16>())
            .prop_map(|(a, b, i, j)| {
                let mut out = a.bytes[..at(i, a.bytes.len())].to_vec();
                out.extend_from_slice(&b.bytes[at(j, b.bytes.len())..]);
                BytesCase { bytes: out, family: "spliced", origin: Some(a.fmt) }
            }),
        3 => random_token_seq_strategy().prop_map(|b| BytesCase { bytes: b, family: "token_seq", origin: None }),
        1 => proptest::collection::vec(any::<u8>(), 0..48).prop_map(|b| BytesCase { bytes: b, family: "random_bytes", origin: None }),
        1 => (proptest::sample::select(vec![0x80u8, 0x8f, 0x90, 0x91, 0x9f, 0xdc, 0xdd, 0xde, 0xdf, 0xc4, 0xd9, 0xdb]), proptest::collection::vec(any::<u8>(), 0..24))
            .prop_map(|(m, mut b)| { b.insert(0, m); BytesCase { bytes: b, family: "msgpack_marker_first", origin: Some(Fmt::Msgpack) } }),
        1 => fixture,
        1 => mutated_fixture,
        // YAML streams re-encoded as UTF-16/32 (other formats pass unchanged), whole
        // or damaged at byte level (ill-formed code units, cut units)
        3 => (stream_strategy(3, Shape::COMMON_NULL), 0usize..4, any::<bool>(), proptest::option::weighted(0.4, mutops_strategy()))
            .prop_map(|(s, e, bom, ops)| {
                if s.fmt != Fmt::Yaml {
                    return BytesCase { bytes: s.bytes, family: "valid_stream", origin: Some(s.fmt) };
                }
                let enc = ["utf-16le", "utf-16be", "utf-32le", "utf-32be"][e];
                let text = String::from_utf8_lossy(&s.bytes).into_owned();
                let bom = bom || !text.chars().next().map_or(false, |c| c.is_ascii() && c != '\0');
                let bytes = crate::checks::c07::encode_text(&text, enc, bom);
                match ops {
                    None => BytesCase { bytes, family: "yaml_utf16_32", origin: Some(Fmt::Yaml) },
                    Some(ops) => BytesCase { bytes: apply_mutations(bytes, &ops, Fmt::Yaml), family: "yaml_utf16_32_damaged", origin: Some(Fmt::Yaml) },
                }
            }),
    ]
    .boxed()
}
