//! C01 Cross-format value fidelity.

use proptest::prelude::*;
use serde_json::{json, Value as J};

use crate::model::*;
use crate::oracle::*;
use crate::runner::*;
use crate::util::*;
use crate::xtapi::*;

pub struct C01;

#[derive(Clone, Debug)]
pub struct Case {
    pub v: Val,
    pub a: Fmt,
    pub style: Style,
    pub mode: Mode,
    pub detect: bool,
}

impl Case {
    pub fn to_json(&self, unit: &str) -> J {
        json!({"unit": unit, "v": self.v.to_json(), "a": self.a.name(), "style": self.style.to_json(),
               "mode": self.mode.to_json(), "detect": self.detect})
    }
    pub fn from_json(j: &J) -> Option<Case> {
        Some(Case {
            v: Val::from_json(j.get("v")?)?,
            a: Fmt::from_name(j.get("a")?.as_str()?)?,
            style: Style::from_json(j.get("style")?)?,
            mode: Mode::from_json(j.get("mode")?)?,
            detect: j.get("detect")?.as_bool()?,
        })
    }
}

pub fn fmt_strategy() -> BoxedStrategy<Fmt> {
    prop_oneof![Just(Fmt::Json), Just(Fmt::Msgpack), Just(Fmt::Toml), Just(Fmt::Yaml)].boxed()
}

fn case_strategy() -> BoxedStrategy<Case> {
    (
        prop_oneof![3 => doc_strategy(Shape::COMMON), 1 => doc_strategy(Shape::COMMON_NULL)],
        fmt_strategy(),
        style_strategy(),
        mode_strategy(),
        any::<bool>(),
    )
        .prop_map(|(v, a, style, mode, detect)| Case { v, a, style, mode, detect })
        .boxed()
}

/// K3: a string that the YAML 1.2 core schema resolves as a number but whose
/// magnitude is beyond what serde_yaml parses (a float token overflowing
/// binary64, an integer token beyond 128 bits) is emitted unquoted by the YAML
/// writer.
pub fn k3_string(s: &str) -> bool {
    match crate::rd_yaml::resolve_plain(s) {
        Val::Float(f) => f.is_infinite() && crate::rd_yaml::is_core_float(s),
        Val::Ext(-1, _) => s.parse::<i128>().is_err() && s.parse::<u128>().is_err(),
        _ => false,
    }
}

/// Equality that additionally accepts, at a string `s` with `k3_string(s)`,
/// the number the core schema resolves `s` to. Returns (equal, used_k3).
fn eq_mod_k3(expected: &Val, got: &Val, used: &mut bool) -> bool {
    match (expected, got) {
        (Val::Str(s), g) if k3_string(s) => {
            if *g == *expected {
                true
            } else if *g == crate::rd_yaml::resolve_plain(s) {
                *used = true;
                true
            } else {
                false
            }
        }
        (Val::Seq(a), Val::Seq(b)) => a.len() == b.len() && a.iter().zip(b).all(|(x, y)| eq_mod_k3(x, y, used)),
        (Val::Map(a), Val::Map(b)) => {
            a.len() == b.len() && a.iter().zip(b).all(|((k1, v1), (k2, v2))| eq_mod_k3(k1, k2, used) && eq_mod_k3(v1, v2, used))
        }
        (a, b) => a == b,
    }
}

/// Compares; returns Ok(None) on equality, Ok(Some(class)) when the difference
/// is exactly a listed known class, Err otherwise.
pub fn compare(expected: &Val, got: &Val, b: Fmt, property: &str, model_for_k5: Option<&Val>) -> Result<Option<&'static str>, String> {
    if expected == got {
        return Ok(None);
    }
    if b == Fmt::Yaml && is_known_class(property, "yaml_plain_number_overflow") {
        let mut used = false;
        if eq_mod_k3(expected, got, &mut used) && used {
            return Ok(Some("yaml_plain_number_overflow"));
        }
    }
    if b == Fmt::Toml
        && is_known_class(property, "toml_nested_array_with_table_order")
        && model_for_k5.map_or(false, |m| m.has_nested_array_with_table() && m.toml_crate_form() == *got)
    {
        return Ok(Some("toml_nested_array_with_table_order"));
    }
    Err(format!("value read back from {} output differs {} (expected vs got)", b.name(), expected.diff(got)))
}

/// Core oracle for one source document and one target.
pub fn check_pair(text: &[u8], model: &Val, from: Option<Fmt>, b: Fmt, mode: &Mode, rec: &mut Recorder, property: &str) -> Result<(), String> {
    let o = run_mode(text, mode, from, b);
    match &o.verdict {
        Verdict::Ok => {}
        Verdict::Err(e) => {
            rec.class("refused_by_xt");
            rec.class(&format!("refused:{}", e.chars().take(40).collect::<String>()));
            return Ok(());
        }
        Verdict::Panic(p) => return Err(format!("panic while translating to {}: {}", b.name(), p)),
    }
    let docs = read_output(&o.out, b).map_err(|e| format!("{} output unreadable by the independent reader: {} (output {:?})", b.name(), e, brief_bytes(&o.out)))?;
    if docs.len() != 1 {
        return Err(format!("{} output holds {} documents, expected 1 (output {:?})", b.name(), docs.len(), brief_bytes(&o.out)));
    }
    match compare(&expect(model, b), &docs[0], b, property, Some(model))? {
        None => Ok(()),
        Some(class) => {
            rec.known(class);
            Ok(())
        }
    }
}

pub fn check_case(c: &Case, rec: &mut Recorder, property: &str) -> Result<(), String> {
    let v = project_source(c.v.clone(), c.a);
    if !writable(&v, c.a) {
        rec.reject();
        return Ok(());
    }
    let (mut text, model) = write_source(&v, c.a, &c.style);
    // one more spelling of a YAML stream: a leading UTF-8 byte order mark
    if c.a == Fmt::Yaml && c.style.tape.first().map_or(false, |b| b % 8 == 5) {
        text.splice(0..0, [0xef, 0xbb, 0xbf]);
        rec.class("yaml_source_with_utf8_bom");
    }
    // and of a JSON text: leading blank space (detection must still say JSON)
    if c.a == Fmt::Json && c.style.tape.first().map_or(false, |b| b % 4 == 1) {
        text.splice(0..0, *b" \n\t ");
        rec.class("json_source_with_leading_whitespace");
    }
    match read_any(&text, c.a) {
        Ok(d) if d.len() == 1 && d[0] == model => {}
        _ => {
            rec.reject();
            return Ok(());
        }
    }
    let mut from = Some(c.a);
    if c.detect {
        match detect(&text, &c.mode) {
            Ok(Some(f)) if f == c.a => {
                from = None;
                rec.class("source_detected");
            }
            _ => rec.class("detect_not_applicable"),
        }
    }
    let nontrivial = nontrivial_doc(&model);
    for b in FORMATS {
        if !representable(&model, b) {
            rec.class("target_cannot_represent");
            continue;
        }
        let h = hash_bytes(&[&text, c.a.name().as_bytes(), b.name().as_bytes()]);
        rec.count(if nontrivial { Some(h) } else { None });
        rec.class(&format!("pair:{}->{}", c.a.name(), b.name()));
        check_pair(&text, &model, from, b, &c.mode, rec, property)?;
    }
    rec.class(&format!("mode:{}", c.mode.class()));
    rec.sample(|| json!({"source": c.a.name(), "text": brief_bytes(&text), "mode": c.mode.class(), "detected": from.is_none()}));
    Ok(())
}

/// Collections and strings whose length sits on a boundary of a length encoding
/// (MessagePack fix/8/16/32-bit headers) or of a size-hint / buffer heuristic.
pub fn wide_values() -> Vec<(String, Val)> {
    let mut out = vec![];
    for n in [15usize, 16, 17, 31, 32, 33, 255, 256, 257, 4095, 4096, 4097, 5000, 65535, 65536, 65537] {
        out.push((format!("seq_{}", n), Val::Map(vec![(Val::s("root"), Val::Seq((0..n).map(|i| Val::Int(i as i128 % 100)).collect()))])));
        out.push((format!("map_{}", n), Val::Map((0..n).map(|i| (Val::Str(format!("k{}", i)), Val::Int(i as i128 % 7))).collect())));
        out.push((format!("str_{}", n), Val::Map(vec![(Val::s("root"), Val::Str("s".repeat(n))), (Val::Str("k".repeat(n)), Val::Int(1))])));
        if n >= 4095 && n <= 5000 {
            out.push((format!("nested_seq_{}", n), Val::Map(vec![(Val::s("root"), Val::Seq(vec![Val::Seq((0..n).map(|i| Val::Bool(i % 2 == 0)).collect()), Val::Int(1)]))])));
        }
    }
    out
}

/// Scalars worth sweeping exhaustively.
pub fn sweep_strings() -> Vec<String> {
    let mut out = vec![];
    for c in special_chars() {
        for pat in 0..4 {
            out.push(match pat {
                0 => c.to_string(),
                1 => format!("{}a", c),
                2 => format!("a{}", c),
                _ => format!("a{}b", c),
            });
        }
    }
    out.extend(LOOKALIKES.iter().map(|s| s.to_string()));
    out
}

impl Check for C01 {
    fn id(&self) -> &'static str {
        "C01"
    }
    fn level(&self) -> &'static str {
        "exploration"
    }
    fn rule(&self) -> String {
        "Generated: model documents (common data model, proptest recursive strategy with boundary ints, raw-bit floats, adversarial strings) written in a drawn spelling of a drawn source format, translated by xt to every target that can represent them under a drawn supply mode (slice / scheduled reader) with the source format named or detected; output decoded by the harness's independent reader of the target format and compared type-exactly with the model (TOML: up to its normal form). One evaluation = one (document text, source, target) translation. Non-trivial = the document has a non-ASCII/control/indicator/look-alike string, |int| >= 2^31, a float needing >= 16 significant digits, nesting >= 3, or a map with >= 2 keys; distinct by hash of (text, source, target). Sweep units enumerate every special scalar (controls, BOM, non-characters, plane edges, indicators, look-alikes) in key and value position, every int boundary, special/random floats, and depth-64 chains through all 16 pairs.".into()
    }
    fn assumptions(&self) -> Vec<String> {
        vec![
            "independent readers: harness JSON and MessagePack decoders; libyaml events + harness YAML 1.2 core-schema resolver; toml_edit document walk".into(),
            "an Err from xt on a generated document counts as 'refused' (C01 is conditional on xt translating); the run is inconclusive if refusals are frequent".into(),
            "JSON integer token -0 and non-core YAML spellings are not generated".into(),
        ]
    }
    fn units(&self, tier: Tier) -> Vec<Unit> {
        vec![
            Unit::gen("gen", 16, tier.pick(30_000, 200_000)),
            Unit::enumerate("scalar_sweep", 16),
            Unit::enumerate("int_sweep", 4),
            Unit::gen("float_sweep", 8, tier.pick(20_000, 250_000)),
            Unit::enumerate("deep", 4),
            Unit::enumerate("wide", 16),
        ]
    }
    fn required_classes(&self, _tier: Tier) -> Vec<&'static str> {
        vec![
            "pair:json->yaml", "pair:yaml->json", "pair:toml->msgpack", "pair:msgpack->toml", "pair:yaml->yaml", "pair:toml->toml",
            "source_detected", "mode:slice", "mode:bytewise", "mode:sizes",
        ]
    }
    fn run_unit(&self, unit: &Unit, shard: u32, seed: u64, tier: Tier, rec: &mut Recorder) {
        match unit.name {
            "gen" => run_prop(rec, seed, unit.cases, case_strategy(), |c| c.to_json("gen"), |c, r| check_case(c, r, "C01")),
            "scalar_sweep" => {
                let strings = sweep_strings();
                let limit = tier.pick(strings.len(), strings.len());
                for (i, s) in strings.iter().enumerate().take(limit) {
                    if i as u32 % unit.shards != shard {
                        continue;
                    }
                    for pos in 0..3 {
                        let v = match pos {
                            0 => Val::Map(vec![(Val::s("k"), Val::Str(s.clone()))]),
                            1 => Val::Map(vec![(Val::Str(s.clone()), Val::Int(1))]),
                            _ => Val::Map(vec![(Val::s("a"), Val::Seq(vec![Val::Str(s.clone()), Val::s("z")])), (Val::Str(s.clone()), Val::Str(s.clone()))]),
                        };
                        for a in FORMATS {
                            for (mi, mode) in [Mode::Slice, Mode::Reader(crate::sio::Sched::Fixed(1)), Mode::Reader(crate::sio::Sched::Fixed(3))].iter().enumerate() {
                                // canonical style and one derived style per string
                                let styles = [Style::canonical(), Style { tape: s.bytes().chain([(i * 7 + pos) as u8, 201, 77, 130, 255]).collect(), cyclic: true }];
                                let c = Case { v: v.clone(), a, style: styles[mi % 2].clone(), mode: mode.clone(), detect: mi == 1 };
                                if rec.tracing() {
                                    rec.trace_case(|| c.to_json("scalar_sweep"));
                                }
                                if let Err(m) = check_case(&c, rec, "C01") {
                                    rec.fail(m, c.to_json("scalar_sweep"));
                                    return;
                                }
                            }
                        }
                    }
                }
            }
            "int_sweep" => {
                let ints = int_boundaries();
                for (i, x) in ints.iter().enumerate() {
                    if i as u32 % unit.shards != shard {
                        continue;
                    }
                    let v = Val::Map(vec![(Val::s("n"), Val::Int(*x)), (Val::s("l"), Val::Seq(vec![Val::Int(*x), Val::Int(-*x).clone()]))]);
                    let v = match &v {
                        Val::Map(m) => Val::Map(m.iter().map(|(k, v)| (k.clone(), clamp_ints(v))).collect()),
                        _ => unreachable!(),
                    };
                    for a in FORMATS {
                        // every tape value selects a different width/radix spelling
                        for t in 0..12u8 {
                            let style = Style { tape: vec![t.wrapping_mul(23), t.wrapping_mul(41), t.wrapping_mul(67), t.wrapping_mul(97)], cyclic: true };
                            let mode = if t % 2 == 0 { Mode::Slice } else { Mode::Reader(crate::sio::Sched::Fixed(1 + t as usize)) };
                            let c = Case { v: v.clone(), a, style, mode, detect: t % 3 == 0 };
                            if let Err(m) = check_case(&c, rec, "C01") {
                                rec.fail(m, c.to_json("int_sweep"));
                                return;
                            }
                        }
                    }
                }
            }
            "float_sweep" => {
                let strat = (
                    proptest::collection::vec(float_strategy(), 1..6),
                    prop_oneof![Just(Fmt::Json), Just(Fmt::Yaml), Just(Fmt::Toml), Just(Fmt::Msgpack)],
                    style_strategy(),
                    mode_strategy(),
                )
                    .prop_map(|(fs, a, style, mode)| Case {
                        v: Val::Map(vec![(Val::s("f"), Val::Seq(fs.iter().map(|f| Val::Float(*f)).collect())), (Val::s("g"), Val::Float(fs[0]))]),
                        a,
                        style,
                        mode,
                        detect: false,
                    });
                run_prop(rec, seed, unit.cases, strat, |c| c.to_json("float_sweep"), |c, r| check_case(c, r, "C01"));
                if shard == 0 && !rec.failed() {
                    for f in float_specials() {
                        for a in FORMATS {
                            for t in 0..9u8 {
                                let c = Case {
                                    v: Val::Map(vec![(Val::s("f"), Val::Float(f))]),
                                    a,
                                    style: Style { tape: vec![0, 0, 0, 0, t * 29, t * 29, t * 29], cyclic: true },
                                    mode: Mode::Slice,
                                    detect: false,
                                };
                                if let Err(m) = check_case(&c, rec, "C01") {
                                    rec.fail(m, c.to_json("float_sweep"));
                                    return;
                                }
                            }
                        }
                    }
                }
            }
            "wide" => {
                for (i, (name, v)) in wide_values().into_iter().enumerate() {
                    if i as u32 % unit.shards != shard {
                        continue;
                    }
                    for a in FORMATS {
                        for mode in [Mode::Slice, Mode::Reader(crate::sio::Sched::Fixed(8192))] {
                            let c = Case { v: v.clone(), a, style: Style::canonical(), mode, detect: false };
                            rec.class("wide");
                            if let Err(m) = check_case(&c, rec, "C01") {
                                rec.fail(format!("{}: {}", name, m), c.to_json("wide"));
                                return;
                            }
                        }
                    }
                }
            }
            "deep" => {
                let mut n = 0u32;
                for depth in [1usize, 2, 3, 8, 31, 32, 33, 62, 63, 64] {
                    for shape in 0..4 {
                        n += 1;
                        if n % unit.shards != shard {
                            continue;
                        }
                        let kinds: Vec<bool> = (0..depth)
                            .map(|i| match shape {
                                0 => false,
                                1 => true,
                                2 => i % 2 == 0,
                                _ => (i * 7 + depth) % 3 == 0,
                            })
                            .collect();
                        for leaf in [Val::Int(7), Val::s("x: y"), Val::Float(0.1), Val::Seq(vec![]), Val::Map(vec![])] {
                            let room = 64 - leaf.depth().min(1);
                            let v = chain(leaf.clone(), &kinds[..depth.min(room)]);
                            for a in FORMATS {
                                for (si, style) in [Style::canonical(), Style { tape: vec![200, 90, 17, 255, 128, 3], cyclic: true }].iter().enumerate() {
                                    let mode = if si == 0 { Mode::Slice } else { Mode::Reader(crate::sio::Sched::Fixed(5)) };
                                    let c = Case { v: v.clone(), a, style: style.clone(), mode, detect: si == 1 };
                                    if let Err(m) = check_case(&c, rec, "C01") {
                                        rec.fail(m, c.to_json("deep"));
                                        return;
                                    }
                                }
                            }
                        }
                    }
                }
            }
            other => panic!("unknown unit {}", other),
        }
    }
    fn replay(&self, case: &J) -> Result<(), String> {
        let c = Case::from_json(case).ok_or("malformed C01 case")?;
        let mut rec = Recorder::default();
        check_case(&c, &mut rec, "C01")
    }
    fn confirm_known(&self, k: &Known) -> bool {
        match k.class.as_str() {
            "yaml_plain_number_overflow" => {
                let s = k.example.get("string").and_then(|s| s.as_str()).unwrap_or("1e999");
                let text = format!("[{}]", serde_json::to_string(s).unwrap());
                let o = run_slice(text.as_bytes(), Some(Fmt::Json), Fmt::Yaml);
                match read_output(&o.out, Fmt::Yaml) {
                    Ok(d) => d.len() == 1 && d[0] != Val::Seq(vec![Val::s(s)]),
                    Err(_) => false,
                }
            }
            "toml_nested_array_with_table_order" => {
                let text = k.example.get("json").and_then(|s| s.as_str()).unwrap_or("");
                let o = run_slice(text.as_bytes(), Some(Fmt::Json), Fmt::Toml);
                let model = crate::rd_json::read_stream(text.as_bytes()).ok().and_then(|mut d| d.pop());
                match (read_output(&o.out, Fmt::Toml), model) {
                    (Ok(d), Some(m)) => d.len() == 1 && d[0] != m.toml_normal() && d[0] == m.toml_crate_form(),
                    _ => false,
                }
            }
            _ => false,
        }
    }
}

fn clamp_ints(v: &Val) -> Val {
    match v {
        Val::Int(i) => Val::Int((*i).clamp(i64::MIN as i128, u64::MAX as i128)),
        Val::Seq(s) => Val::Seq(s.iter().map(clamp_ints).collect()),
        other => other.clone(),
    }
}
