//! C14 CLI source-format resolution and agreement with the library.

use proptest::prelude::*;
use serde_json::{json, Value as J};

use crate::cli::Bin;
use crate::climodel::*;
use crate::corpus::*;
use crate::model::Shape;
use crate::runner::*;
use crate::util::*;


pub struct C14;

#[derive(Clone, Debug)]
struct Case {
    inv: Invocation,
    note: &'static str,
}

fn extension_spellings() -> Vec<&'static str> {
    vec![
        ".json", ".JSON", ".Json", ".jSoN", ".yaml", ".YAML", ".yml", ".YML", ".Yml", ".toml", ".TOML", ".tOmL", ".msgpack", ".MSGPACK", ".MsgPack", ".txt", ".jsn", ".yaml.json", ".json.yaml", ".tar.toml", ".json.", ".json.bak",
        "", ".msgpack.yml", ".yaml~", ".JSON5", ".j", ".m", ".t", ".y", ".Y", ".J", ".ym", ".jso", ".tom", ".msgpac", ".yamll",
    ]
}

fn stems() -> Vec<&'static str> {
    vec!["data", "a.b", "", "json", ".hidden", "x y", "-dash", "UPPER", "toml.", "é"]
}

fn content() -> BoxedStrategy<(Vec<u8>, &'static str)> {
    prop_oneof![
        5 => stream_strategy(3, Shape { depth: 4, size: 14, ..Shape::COMMON_NULL }).prop_map(|s| (s.bytes, "valid_stream")),
        1 => proptest::sample::select(vec![&b"{\"a\": 1}"[..], b"[1, 2]", b"a = 1\n", b"a: 1\n", b"- x\n", b"\x81\xa1a\x01", b"[a]\n", b"{}", b"\"s\"", b"1"]).prop_map(|b| (b.to_vec(), "multi_format_valid")),
        1 => proptest::sample::select(vec![&b"{\"a\": "[..], b"a: [1\n", b"= 1\n", b"\xc1", b"\x00\xff", b""]).prop_map(|b| (b.to_vec(), "invalid")),
    ]
    .boxed()
}

fn case_strategy() -> BoxedStrategy<Case> {
    (
        proptest::sample::select(stems()),
        proptest::sample::select(extension_spellings()),
        content(),
        prop_oneof![3 => Just(None), 1 => Just(Some("json")), 1 => Just(Some("j")), 1 => Just(Some("yaml")), 1 => Just(Some("y")), 1 => Just(Some("toml")), 1 => Just(Some("msgpack")), 1 => Just(Some("m"))],
        crate::checks::c01::fmt_strategy(),
        0u8..8,
        any::<bool>(),
        content(),
    )
        .prop_map(|(stem, ext, (bytes, note), f, to, kind, dbg, (stdin, _))| {
            let mut name = format!("{}{}", stem, ext);
            if name.is_empty() || name == "-" {
                name = "plain".to_string();
            }
            let mut args: Vec<String> = vec![];
            if let Some(f) = f {
                args.push(format!("-f{}", f));
            }
            args.push(format!("-t{}", to.name()));
            let mut files = vec![];
            let second = FileSpec { name: "second.json".into(), kind: FileKind::Regular(b"{\"second\": 2}".to_vec()) };
            match kind {
                0 | 1 | 2 => {
                    files.push(FileSpec { name: name.clone(), kind: FileKind::Regular(bytes) });
                    args.push("--".into());
                    args.push(name);
                }
                3 => {
                    files.push(FileSpec { name: name.clone(), kind: FileKind::Fifo(bytes) });
                    args.push("--".into());
                    args.push(name);
                }
                4 => {
                    // stdin only (no file arguments); the generated content arrives on stdin:
                    // through a pipe, or redirected from a regular file whose offset is 0 or
                    // already past a first line ("{ read line; xt; } < file")
                    let (stdin, off) = match stem.len() % 3 {
                        0 => (bytes, None),
                        1 => (bytes, Some(0)),
                        _ => {
                            let mut b = b"skipped first line\n".to_vec();
                            let n = b.len();
                            b.extend(bytes);
                            (b, Some(n))
                        }
                    };
                    if off.is_some() && stem.len() % 2 == 0 {
                        args.extend(["-".to_string(), "-".to_string()]);
                    }
                    return Case { inv: Invocation { args, files, stdin, out: OutKind::Pipe, bin: if dbg { Bin::Debug } else { Bin::Release }, stdin_file_offset: off }, note };
                }
                5 if stem.len() % 4 == 0 => {
                    // standard input is redirected from the very file that is also named
                    // as an operand (the driver writes standard input's content to
                    // "stdin.redirect" in the working directory: same path, same inode):
                    // "xt - f < f" and "xt f - < f" translate the content twice
                    files.push(FileSpec { name: "stdin.redirect".into(), kind: FileKind::Regular(bytes.clone()) });
                    args.push("--".into());
                    if dbg {
                        args.extend(["-".to_string(), "stdin.redirect".to_string()]);
                    } else {
                        args.extend(["stdin.redirect".to_string(), "-".to_string()]);
                    }
                    return Case { inv: Invocation { args, files, stdin: bytes, out: OutKind::Pipe, bin: if dbg { Bin::Debug } else { Bin::Release }, stdin_file_offset: Some(0) }, note: "stdin_is_the_named_file" };
                }
                5 => {
                    // '-' before / after a file
                    files.push(FileSpec { name: name.clone(), kind: FileKind::Regular(bytes) });
                    files.push(second);
                    args.push("--".into());
                    if dbg {
                        args.extend(["-".to_string(), name]);
                    } else {
                        args.extend([name, "second.json".to_string(), "-".to_string()]);
                    }
                }
                6 => {
                    // '-' twice
                    files.push(second);
                    args.extend(["-".to_string(), "second.json".to_string(), "-".to_string()]);
                }
                _ => {
                    files.push(FileSpec { name: name.clone(), kind: FileKind::Dir });
                    files.push(second);
                    args.push("--".into());
                    args.extend(["second.json".to_string(), name]);
                }
            }
            Case { inv: Invocation { args, files, stdin, out: OutKind::Pipe, bin: if dbg { Bin::Debug } else { Bin::Release }, stdin_file_offset: None }, note }
        })
        .boxed()
}

fn check_case(c: &Case, rec: &mut Recorder) -> Result<(), String> {
    let inv = &c.inv;
    // file names with a leading '-' are passed after '--'; names must be valid path components
    if inv.files.iter().any(|f| f.name.contains('/') || f.name == "." || f.name == "..") {
        rec.reject();
        return Ok(());
    }
    let exp = expectation(inv);
    let res = execute(inv);
    let class = match judge(inv, &res, &exp) {
        Ok(c) => c,
        Err(m) => {
            // the library itself disagrees between slice and reader for two known classes
            if let Some(k) = known_supply_difference(inv) {
                rec.known(k);
                return Ok(());
            }
            return Err(format!("xt {:?} [{}]: {}", inv.args, inv.bin.name(), m));
        }
    };
    rec.count(Some(hash_of(&inv.to_json("x").to_string())));
    rec.class(&format!("outcome:{}", class));
    rec.class(&format!("content:{}", c.note));
    for f in &inv.files {
        if inv.args.contains(&f.name) && f.name != "second.json" {
            rec.class(match (&f.kind, extension_format(&f.name)) {
                (FileKind::Fifo(_), _) => "input:fifo",
                (FileKind::Dir, _) => "input:directory",
                (FileKind::Regular(b), _) if b.is_empty() => "input:empty_file",
                (_, Some(_)) => "resolution:by_extension",
                (_, None) => "resolution:by_detection_or_f",
            });
            if f.name.chars().any(|ch| ch.is_ascii_uppercase()) && extension_format(&f.name).is_some() {
                rec.class("extension:mixed_case");
            }
        }
    }
    if inv.args.iter().any(|a| a.starts_with("-f")) {
        rec.class("resolution:-f_given");
    }
    if inv.stdin_file_offset.is_some() {
        rec.class("input:stdin_redirected_from_file");
    }
    if inv.args.iter().filter(|a| *a == "-").count() >= 2 {
        rec.class("stdin_twice");
    } else if inv.args.iter().any(|a| a == "-") || inv.files.is_empty() {
        rec.class("input:stdin");
    }
    rec.sample(|| json!({"args": inv.args, "files": inv.files.iter().map(|f| f.name.clone()).collect::<Vec<_>>(), "observed": res.status(), "class": class, "content": c.note}));
    Ok(())
}

/// K1/K2 live in the library (C02); a CLI run cannot disagree with the model
/// because of them since the model uses the same supply mode - kept as a guard.
fn known_supply_difference(_inv: &Invocation) -> Option<&'static str> {
    None
}

impl Check for C14 {
    fn id(&self) -> &'static str {
        "C14"
    }
    fn level(&self) -> &'static str {
        "exploration"
    }
    fn rule(&self) -> String {
        "Generated invocations of the real binaries: {-f absent, each format name and alias} x file names built from stems and every extension spelling in several letter cases, multi-dot names, no extension, hidden-file names, misleading extensions x content (valid 1..3-document streams of each format from the spelling writers, multi-format-valid texts, invalid content) x input kind (regular file [memory-mapped], empty file, FIFO, standard input alone - piped, or redirected from a regular file at offset 0 or past a first line -, '-' before/after files, '-' twice, directory) x all targets. Oracle: reference resolution -f > extension (Rust Path::extension, ASCII-lower-cased, table from the manual) > detection, then stdout must equal what the in-process library produces for the same bytes with the resolved format in the matching supply mode (slice for mapped files, reader otherwise); a second use of stdin => exit 1 after the earlier inputs were translated. One evaluation = one process run; every case is non-trivial; distinct by hash of the invocation.".into()
    }
    fn assumptions(&self) -> Vec<String> {
        vec!["the reference output comes from in-process library calls (C01-C03 vouch for those)".into()]
    }
    fn needs_cli(&self) -> bool {
        true
    }
    fn units(&self, tier: Tier) -> Vec<Unit> {
        vec![Unit::gen("resolve", 16, tier.pick(1200, 10_000))]
    }
    fn required_classes(&self, _tier: Tier) -> Vec<&'static str> {
        vec!["resolution:by_extension", "resolution:by_detection_or_f", "resolution:-f_given", "extension:mixed_case", "input:fifo", "input:stdin", "input:stdin_redirected_from_file", "input:directory", "stdin_twice", "outcome:ok", "outcome:failed", "content:valid_stream", "content:invalid"]
    }
    fn run_unit(&self, unit: &Unit, _shard: u32, seed: u64, _tier: Tier, rec: &mut Recorder) {
        run_prop(rec, seed, unit.cases, case_strategy(), |c| c.inv.to_json("resolve"), check_case);
    }
    fn replay(&self, case: &J) -> Result<(), String> {
        check_case(&Case { inv: Invocation::from_json(case).ok_or("bad invocation")?, note: "replay" }, &mut Recorder::default())
    }
}
