//! C08 TOML output is nothing or exactly one valid document.

use proptest::prelude::*;
use serde_json::{json, Value as J};

use crate::checks::c03::{build_input, DocSpec, InputSpec};
use crate::checks::c04::plant;
use crate::model::*;
use crate::oracle::*;
use crate::runner::*;
use crate::util::*;
use crate::xtapi::*;

pub struct C08;

#[derive(Clone, Copy, Debug, PartialEq)]
pub enum Expectation {
    /// must be accepted and read back as the value (TOML normal form)
    Accept,
    /// must be refused with nothing written
    Refuse,
    /// outside what the statement pins down (binary, ext, f32, non-string
    /// non-null keys): either refused with nothing written, or one valid document
    Either,
}

pub fn expectation(v: &Val) -> Expectation {
    if !matches!(v, Val::Map(_)) {
        return Expectation::Refuse;
    }
    fn go(v: &Val, must_refuse: &mut bool, lenient: &mut bool) {
        match v {
            Val::Null => *must_refuse = true,
            Val::Int(i) if *i > i64::MAX as i128 => *must_refuse = true,
            Val::Bytes(_) | Val::Ext(..) | Val::F32(_) => *lenient = true,
            Val::Seq(s) => s.iter().for_each(|x| go(x, must_refuse, lenient)),
            Val::Map(m) => {
                for (k, x) in m {
                    match k {
                        Val::Str(_) => {}
                        Val::Null => *must_refuse = true,
                        _ => *lenient = true, // other non-string keys: not pinned down
                    }
                    go(x, must_refuse, lenient);
                }
            }
            _ => {}
        }
    }
    let (mut must_refuse, mut lenient) = (false, false);
    go(v, &mut must_refuse, &mut lenient);
    if must_refuse {
        Expectation::Refuse
    } else if lenient {
        Expectation::Either
    } else {
        Expectation::Accept
    }
}

/// Replaces every null key that is not the first key of its map by the string
/// "null"; None when there is no such key.
pub fn replace_nonfirst_null_keys(v: &Val) -> Option<Val> {
    fn go(v: &Val, found: &mut bool) -> Val {
        match v {
            Val::Seq(s) => Val::Seq(s.iter().map(|x| go(x, found)).collect()),
            Val::Map(m) => Val::Map(
                m.iter()
                    .enumerate()
                    .map(|(i, (k, x))| {
                        let k2 = if i > 0 && *k == Val::Null {
                            *found = true;
                            Val::s("null")
                        } else {
                            go(k, found)
                        };
                        (k2, go(x, found))
                    })
                    .collect(),
            ),
            other => other.clone(),
        }
    }
    let mut found = false;
    let out = go(v, &mut found);
    if found {
        Some(out)
    } else {
        None
    }
}

#[derive(Clone, Debug)]
pub struct Call {
    pub input: InputSpec,
}

#[derive(Clone, Debug)]
pub struct History {
    pub calls: Vec<Call>,
}

const EXT: Shape = Shape { allow_null: false, ext_float: true, ext_bytes: true, ext_keys: true, depth: 4, size: 16 };

fn tricky_keys() -> BoxedStrategy<Val> {
    proptest::collection::vec(
        (
            prop_oneof![
                Just("".to_string()),
                Just("a.b".to_string()),
                Just("a b".to_string()),
                Just("\"q\"".to_string()),
                Just("'s'".to_string()),
                Just("k\n".to_string()),
                Just("é".to_string()),
                Just("[t]".to_string()),
                Just("1".to_string()),
                Just("true".to_string()),
                Just("\u{0}".to_string()),
                Just("\\".to_string()),
                Just("#".to_string()),
                Just("=".to_string()),
                string_strategy()
            ],
            prop_oneof![
                scalar_strategy(Shape::COMMON),
                Just(Val::Map(vec![])),
                Just(Val::Seq(vec![])),
                Just(Val::Seq(vec![Val::Map(vec![]), Val::Map(vec![(Val::s("x"), Val::Int(1))])])),
                Just(Val::Seq(vec![Val::Int(1), Val::s("a"), Val::Seq(vec![Val::Bool(true)]), Val::Map(vec![(Val::s("y"), Val::Float(0.5))])])),
                Just(Val::Seq(vec![Val::Seq(vec![Val::Map(vec![(Val::s("z"), Val::Int(2))])])])),
                Just(Val::Map(vec![(Val::s("aot"), Val::Seq(vec![Val::Map(vec![(Val::s("n"), Val::Seq(vec![Val::Map(vec![])]))])]))])),
            ],
        ),
        0..6,
    )
    .prop_map(|e| {
        let mut out: Vec<(Val, Val)> = vec![];
        for (k, v) in e {
            let k = Val::Str(k);
            if !out.iter().any(|(k2, _)| *k2 == k) {
                out.push((k, v));
            }
        }
        Val::Map(out)
    })
    .boxed()
}

fn doc_for_toml() -> BoxedStrategy<Val> {
    let refusable = prop_oneof![Just(Val::Null), Just(Val::Int(u64::MAX as i128)), Just(Val::Int(i64::MAX as i128 + 1)), Just(Val::Bytes(vec![1, 2, 255])), Just(Val::Ext(3, vec![9])), Just(Val::F32(0.25))];
    prop_oneof![
        5 => doc_strategy(Shape::COMMON).prop_map(table_rooted),
        2 => tricky_keys(),
        3 => (doc_strategy(Shape { depth: 4, size: 20, ..Shape::COMMON }).prop_map(table_rooted), any::<u16>(), refusable).prop_map(|(v, i, bad)| {
            let n = v.node_count();
            let mut idx = 1 + ((i as usize * (n - 1).max(1)) >> 16).min(n.saturating_sub(2));
            if n < 2 { idx = 0; }
            let mut hit_key = false;
            plant(&v, &mut idx, &bad, &mut hit_key)
        }),
        1 => prop_oneof![scalar_strategy(Shape::COMMON_NULL), proptest::collection::vec(scalar_strategy(Shape::COMMON), 0..4).prop_map(Val::Seq)],
        2 => doc_strategy(EXT).prop_map(table_rooted),
        // tables holding TOML date-times (they stay date-times from a TOML source;
        // for the other sources they are strings)
        2 => (doc_strategy(Shape { depth: 3, size: 10, ..Shape::COMMON }).prop_map(table_rooted), any::<u16>(), crate::checks::c06::datetime_strategy()).prop_map(|(v, i, dt)| {
            let n = v.node_count();
            let mut idx = if n < 2 { 0 } else { 1 + ((i as usize * (n - 1)) >> 16).min(n - 2) };
            let mut hit_key = false;
            let planted = plant(&v, &mut idx, &dt, &mut hit_key);
            if hit_key { v } else { planted }
        }),
    ]
    .boxed()
}

fn without_datetimes(v: &Val) -> Val {
    match v {
        Val::Datetime(s) => Val::Str(s.clone()),
        Val::Seq(items) => Val::Seq(items.iter().map(without_datetimes).collect()),
        Val::Map(m) => Val::Map(m.iter().map(|(k, x)| (without_datetimes(k), without_datetimes(x))).collect()),
        other => other.clone(),
    }
}

fn call_strategy() -> BoxedStrategy<Call> {
    (crate::checks::c01::fmt_strategy(), proptest::collection::vec((doc_for_toml(), style_strategy(), any::<u8>()), 1..4), mode_strategy())
        .prop_map(|(fmt, docs, mode)| {
            let n = if fmt == Fmt::Toml { 1 } else { docs.len() };
            Call { input: InputSpec { fmt, docs: docs.into_iter().take(n).map(|(v, style, sep)| DocSpec { v, style, sep, boundary: None }).collect(), mode, detect: false, empty_variant: 0 } }
        })
        .boxed()
}

fn history_strategy() -> BoxedStrategy<History> {
    proptest::collection::vec(call_strategy(), 1..4).prop_map(|calls| History { calls }).boxed()
}

fn history_json(h: &History) -> J {
    json!({"unit": "history", "calls": h.calls.iter().map(|c| json!({
        "fmt": c.input.fmt.name(), "mode": c.input.mode.to_json(),
        "docs": c.input.docs.iter().map(|d| json!({"v": d.v.to_json(), "style": d.style.to_json(), "sep": d.sep})).collect::<Vec<_>>()
    })).collect::<Vec<_>>()})
}

fn history_from_json(j: &J) -> Option<History> {
    Some(History {
        calls: j["calls"]
            .as_array()?
            .iter()
            .map(|c| {
                Some(Call {
                    input: InputSpec {
                        fmt: Fmt::from_name(c["fmt"].as_str()?)?,
                        mode: Mode::from_json(&c["mode"])?,
                        detect: false,
                        empty_variant: 0,
                        docs: c["docs"]
                            .as_array()?
                            .iter()
                            .map(|d| Some(DocSpec { v: Val::from_json(&d["v"])?, style: Style::from_json(&d["style"])?, sep: d["sep"].as_u64()? as u8, boundary: None }))
                            .collect::<Option<Vec<_>>>()?,
                    },
                })
            })
            .collect::<Option<Vec<_>>>()?,
    })
}

type Prepared = Vec<(Fmt, Mode, Vec<u8>, Vec<Val>)>;

/// Input texts of a history (None: a generator reject, already counted).
fn prepare_history(h: &History, rec: &mut Recorder) -> Option<Prepared> {
    let mut prepared: Prepared = vec![];
    for c in &h.calls {
        let mut spec = c.input.clone();
        if spec.fmt != Fmt::Toml {
            for d in spec.docs.iter_mut() {
                d.v = without_datetimes(&d.v);
            }
        } else if spec.docs.first().map_or(false, |d| d.v.any(&|x| matches!(x, Val::Datetime(_)))) {
            rec.class("toml_source_with_datetime");
        }
        // a source format that cannot spell one of the documents is replaced by
        // MessagePack, which can spell them all (construction, not rejection)
        if spec.fmt == Fmt::Toml {
            spec.docs.truncate(1);
            if expectation(&spec.docs[0].v) != Expectation::Accept || !writable(&spec.docs[0].v, Fmt::Toml) {
                spec.fmt = Fmt::Msgpack;
            }
        }
        if spec.docs.iter().any(|d| !writable(&d.v, spec.fmt)) {
            spec.fmt = Fmt::Msgpack;
        }
        let docs: Vec<DocSpec> = spec.docs.iter().filter(|d| writable(&d.v, spec.fmt)).cloned().collect();
        if docs.is_empty() {
            rec.reject();
            return None;
        }
        spec.docs = docs;
        // build_input would table-root TOML docs itself; values are final here
        let pieces = build_input(&spec);
        let text: Vec<u8> = pieces.iter().flat_map(|p| p.in_stream.iter().copied()).collect();
        let models: Vec<Val> = pieces.iter().map(|p| p.model.clone()).collect();
        match read_any(&text, spec.fmt) {
            Ok(d) if d == models => {}
            _ => {
                rec.reject();
                return None;
            }
        }
        prepared.push((spec.fmt, spec.mode.clone(), text, models));
    }
    Some(prepared)
}

/// The same histories through the real binaries: every call is one input file
/// (named by its format's extension) of one `xt -t toml` invocation. Standard
/// output must be nothing or exactly one valid TOML document - the one the
/// library writes for the same inputs - and the exit status must say whether
/// every input was translated.
pub fn check_cli_history(h: &History, rec: &mut Recorder) -> Result<(), String> {
    use crate::cli::*;
    let prepared = match prepare_history(h, rec) {
        Some(p) => p,
        None => return Ok(()),
    };
    // reference: one library translator over the same inputs as slices (mapped files)
    let log = std::rc::Rc::new(std::cell::RefCell::new(Vec::<u8>::new()));
    struct LogWriter(std::rc::Rc<std::cell::RefCell<Vec<u8>>>);
    impl std::io::Write for LogWriter {
        fn write(&mut self, buf: &[u8]) -> std::io::Result<usize> {
            self.0.borrow_mut().extend_from_slice(buf);
            Ok(buf.len())
        }
        fn flush(&mut self) -> std::io::Result<()> {
            Ok(())
        }
    }
    let mut all_ok = true;
    {
        let mut t = xt::Translator::new(LogWriter(log.clone()), Fmt::Toml.xt());
        for (fmt, _, text, _) in &prepared {
            // an empty file is read through the reader route by the binary
            let mode = if text.is_empty() { Mode::Reader(crate::sio::Sched::Full) } else { Mode::Slice };
            match translator_call(&mut t, text, &mode, Some(*fmt)) {
                Verdict::Ok => {}
                Verdict::Err(_) => {
                    all_ok = false;
                    break;
                }
                Verdict::Panic(p) => return Err(format!("library panic: {}", p)),
            }
        }
    }
    let expected = log.borrow().clone();
    let n_docs: usize = prepared.iter().map(|p| p.3.len()).sum();
    let sc = Scratch::new("c08");
    let mut args: Vec<std::ffi::OsString> = vec!["-t".into(), "toml".into()];
    for (i, (fmt, _, text, _)) in prepared.iter().enumerate() {
        let ext = match fmt {
            Fmt::Json => "json",
            Fmt::Yaml => "yaml",
            Fmt::Toml => "toml",
            Fmt::Msgpack => "msgpack",
        };
        args.push(sc.file(&format!("in{}.{}", i, ext), text).into());
    }
    for bin in [Bin::Release, Bin::Debug] {
        let r = run_xt(bin, &args, &sc.dir, StdinSpec::Null, StdoutSpec::Pipe, vec![]);
        if r.timed_out {
            return Err(format!("[{}] no result within the time limit", bin.name()));
        }
        let at = format!("xt -t toml over {} input file(s) holding {} document(s) [{}]", prepared.len(), n_docs, bin.name());
        if !r.stdout.is_empty() {
            let text = std::str::from_utf8(&r.stdout).map_err(|_| format!("{}: standard output is not UTF-8", at))?;
            crate::rd_toml::read_doc(text).map_err(|e| format!("{}: standard output is not one valid TOML document: {} ({:?})", at, e, brief_bytes(&r.stdout)))?;
        }
        // after a refusal the binary may or may not have flushed the accepted
        // document; anything else is neither "nothing" nor "the one document"
        let acceptable = r.stdout == expected || (!all_ok && r.stdout.is_empty());
        if !acceptable {
            return Err(format!("{}: standard output {:?} is neither empty nor the one document a TOML translator writes for these inputs: {:?}", at, brief_bytes(&r.stdout), brief_bytes(&expected)));
        }
        let want = if all_ok { 0 } else { 1 };
        if r.code != Some(want) {
            return Err(format!("{}: expected exit {}, got {}", at, want, r.brief()));
        }
    }
    rec.count(if n_docs >= 2 { Some(hash_of(&history_json(h).to_string())) } else { None });
    rec.class(&format!("cli_inputs:{}", prepared.len()));
    rec.class(if all_ok { "cli:all_translated" } else { "cli:refused" });
    if prepared.len() >= 2 && !expected.is_empty() {
        rec.class("cli:later_input_after_accepted_document");
    }
    Ok(())
}

/// Large first documents through the real binaries: the TOML rendering of the first
/// document is larger than any buffer between xt and its standard output (8 KiB in
/// std), and a refused second document (or input) follows. Standard output must
/// still be nothing or the complete first document.
pub fn check_cli_large(case: &J, rec: &mut Recorder) -> Result<(), String> {
    use crate::cli::*;
    let size = case["size"].as_u64().ok_or("bad case")? as usize;
    let src = Fmt::from_name(case["src"].as_str().ok_or("bad case")?).ok_or("bad case")?;
    let route = case["route"].as_str().ok_or("bad case")?.to_string();
    let second = case["second"].as_str().ok_or("bad case")?.to_string();
    // first document: a table of string entries, `size` bytes of values in lines of ~70 bytes
    let n = size / 70 + 1;
    let entries: Vec<String> = (0..n).map(|i| format!("\"k{:05}\":\"{}\"", i, "v".repeat(if i + 1 == n { size % 70 + 1 } else { 60 }))).collect();
    let first = format!("{{{}}}", entries.join(","));
    let second_doc = match second.as_str() {
        "table" => "{\"b\":2}",
        "null_inside" => "{\"b\":null}",
        "scalar" => "17",
        _ => "",
    };
    // JSON text is also YAML (flow style)
    let (doc1, doc2) = match src {
        Fmt::Yaml => (format!("--- {}\n", first), if second_doc.is_empty() { String::new() } else { format!("--- {}\n", second_doc) }),
        _ => (format!("{}\n", first), if second_doc.is_empty() { String::new() } else { format!("{}\n", second_doc) }),
    };
    let alone = run_slice(doc1.as_bytes(), Some(src), Fmt::Toml);
    if !alone.verdict.is_ok() {
        return Err(format!("harness: the first document does not translate alone: {}", alone.verdict.brief()));
    }
    let expected = alone.out;
    if second != "none" && expected.len() <= 8192 && size > 8300 {
        return Err("harness: first document's TOML is not larger than 8 KiB".into());
    }
    let ext = if src == Fmt::Yaml { "yaml" } else { "json" };
    let sc = Scratch::new("c08l");
    let mut args: Vec<std::ffi::OsString> = vec!["-t".into(), "toml".into()];
    let mut stdin = StdinSpec::Null;
    match route.as_str() {
        "one_file" => args.push(sc.file(&format!("in0.{}", ext), format!("{}{}", doc1, doc2).as_bytes()).into()),
        "two_files" => {
            args.push(sc.file(&format!("in0.{}", ext), doc1.as_bytes()).into());
            if !doc2.is_empty() {
                args.push(sc.file(&format!("in1.{}", ext), doc2.as_bytes()).into());
            }
        }
        _ => {
            args.push("-f".into());
            args.push(ext.into());
            stdin = StdinSpec::Bytes(format!("{}{}", doc1, doc2).into_bytes());
        }
    }
    let all_ok = doc2.is_empty();
    for bin in [Bin::Release, Bin::Debug] {
        let r = run_xt(bin, &args, &sc.dir, stdin.clone(), StdoutSpec::Pipe, vec![]);
        if r.timed_out {
            return Err(format!("[{}] no result within the time limit", bin.name()));
        }
        let at = format!("xt -t toml, first document of {} TOML bytes followed by {} ({}, {}) [{}]", expected.len(), second, route, ext, bin.name());
        let acceptable = r.stdout == expected || (!all_ok && r.stdout.is_empty());
        if !acceptable {
            let valid = std::str::from_utf8(&r.stdout).ok().map(|t| crate::rd_toml::read_doc(t).is_ok()).unwrap_or(false);
            return Err(format!("{}: standard output has {} bytes ({}), neither empty nor the complete first document of {} bytes; it ends {:?}", at, r.stdout.len(), if valid { "a valid TOML document" } else { "not a valid TOML document" }, expected.len(), brief_bytes(&r.stdout[r.stdout.len().saturating_sub(40)..])));
        }
        let want = if all_ok { 0 } else { 1 };
        if r.code != Some(want) {
            return Err(format!("{}: expected exit {}, got {}", at, want, r.brief()));
        }
    }
    rec.count(Some(hash_of(&case.to_string())));
    rec.class(if expected.len() > 8192 { "cli_large:first_document_over_8k" } else { "cli_large:first_document_under_8k" });
    rec.class(if all_ok { "cli_large:all_translated" } else { "cli_large:refused_after_large_document" });
    Ok(())
}

pub fn check_history(h: &History, rec: &mut Recorder) -> Result<(), String> {
    let prepared = match prepare_history(h, rec) {
        Some(p) => p,
        None => return Ok(()),
    };
    // run against the model
    let mut attempted = false;
    let mut accepted: Option<Vec<u8>> = None;
    let mut n_docs = 0usize;
    let mut planted_deep = false;
    let mut classes: Vec<&'static str> = vec![];
    let log = std::rc::Rc::new(std::cell::RefCell::new(Vec::<u8>::new()));
    // every other history writes through a writer that takes only a few bytes per
    // call (a pipe, a socket): the document must arrive complete all the same
    struct LogWriter(std::rc::Rc<std::cell::RefCell<Vec<u8>>>, usize);
    impl std::io::Write for LogWriter {
        fn write(&mut self, buf: &[u8]) -> std::io::Result<usize> {
            let n = buf.len().min(self.1);
            self.0.borrow_mut().extend_from_slice(&buf[..n]);
            Ok(n)
        }
        fn flush(&mut self) -> std::io::Result<()> {
            Ok(())
        }
    }
    let piece = match prepared[0].2.len() % 4 {
        0 => 1,
        1 => 7,
        _ => usize::MAX,
    };
    if piece != usize::MAX {
        classes.push("short_writes");
    }
    let mut t = xt::Translator::new(LogWriter(log.clone(), piece), Fmt::Toml.xt());
    for (ci, (fmt, mode, text, models)) in prepared.iter().enumerate() {
        let before = log.borrow().len();
        let verdict = translator_call(&mut t, text, mode, Some(*fmt));
        if let Verdict::Panic(p) = &verdict {
            return Err(format!("call #{}: panic: {}", ci, p));
        }
        let written = log.borrow()[before..].to_vec();
        // what the model says about this call
        let at = format!("call #{} ({} {} document(s), {})", ci, fmt.name(), models.len(), mode.class());
        let mut call_should_fail = false;
        let mut expected_doc: Option<(&Val, bool)> = None;
        for m in models {
            n_docs += 1;
            if attempted {
                call_should_fail = true;
                classes.push("second_document_or_input");
                break;
            }
            attempted = true;
            match expectation(m) {
                Expectation::Accept => {
                    expected_doc = Some((m, false));
                    classes.push("accepted_document");
                }
                Expectation::Refuse
                    if *fmt == Fmt::Yaml
                        && !written.is_empty()
                        && is_known_class("C08", "yaml_nonfirst_null_key_to_toml")
                        && replace_nonfirst_null_keys(m).map_or(false, |m2| expectation(&m2) != Expectation::Refuse) =>
                {
                    // K8: the only reason for refusal is a null key that is not the
                    // first key of its map
                    rec.known("yaml_nonfirst_null_key_to_toml");
                    expected_doc = Some((m, true));
                }
                Expectation::Refuse => {
                    call_should_fail = true;
                    classes.push("refusable_document");
                    if m.depth() >= 2 {
                        planted_deep = true;
                    }
                    break;
                }
                Expectation::Either => {
                    classes.push("unspecified_document");
                    if written.is_empty() {
                        call_should_fail = true;
                        break;
                    }
                    expected_doc = Some((m, true));
                }
            }
        }
        if verdict.is_ok() && call_should_fail {
            return Err(format!("{}: succeeded although a refusal is required (non-table root, null, oversized integer, second document/input, or nothing was written)", at));
        }
        if !verdict.is_ok() && !call_should_fail {
            return Err(format!("{}: a TOML-representable table document was refused: {}", at, verdict.brief()));
        }
        match expected_doc {
            Some((m, lenient)) => {
                let text = std::str::from_utf8(&written).map_err(|_| format!("{}: output is not UTF-8", at))?;
                let got = crate::rd_toml::read_doc(text).map_err(|e| format!("{}: output is not a valid TOML document: {} ({:?})", at, e, brief_bytes(&written)))?;
                if !lenient {
                    if let Some(k) = crate::checks::c01::compare(&m.toml_normal(), &got, Fmt::Toml, "C08", Some(m)).map_err(|e| format!("{}: {}", at, e))? {
                        rec.known(k);
                    }
                }
                accepted = Some(written.clone());
            }
            None => {
                if !written.is_empty() {
                    return Err(format!("{}: a refused document/input still wrote {} bytes: {:?}", at, written.len(), brief_bytes(&written)));
                }
            }
        }
        // invariant after every step: total bytes are nothing or exactly the accepted document
        let total = log.borrow().clone();
        match &accepted {
            None => {
                if !total.is_empty() {
                    return Err(format!("{}: {} bytes on the output although no document was accepted", at, total.len()));
                }
            }
            Some(bytes) => {
                if total != *bytes {
                    return Err(format!("{}: the output is no longer exactly the one accepted document ({} vs {} bytes)", at, total.len(), bytes.len()));
                }
            }
        }
    }
    let nontrivial = n_docs >= 2 || planted_deep;
    let total = log.borrow().clone();
    rec.count(if nontrivial { Some(hash_of(&history_json(h).to_string())) } else { None });
    for c in classes {
        rec.class(c);
    }
    if planted_deep {
        rec.class("refusal_at_depth");
    }
    rec.class(&format!("calls:{}", prepared.len()));
    rec.sample(|| json!({"calls": prepared.iter().map(|(f, m, t, d)| json!({"fmt": f.name(), "mode": m.class(), "docs": d.len(), "text": brief_bytes(t)})).collect::<Vec<_>>(), "output": brief_bytes(&total)}));
    Ok(())
}

impl Check for C08 {
    fn id(&self) -> &'static str {
        "C08"
    }
    fn level(&self) -> &'static str {
        "exploration"
    }
    fn rule(&self) -> String {
        "Stateful, model-based: a generated history of 1..3 translate calls on ONE TOML translator over a logging writer; each call carries 1..3 documents in a drawn source format and supply mode; documents are table-rooted common-model values, tables with keys needing every quoting style / heterogeneous arrays / nested arrays of tables / empty tables, the same with one refusable value (null, oversized integer, binary, ext, f32) planted at a drawn node path, non-table roots, and extension documents. Reference model: state 'attempted'; the first document ever offered is accepted (bytes written = exactly one TOML document that toml_edit reads back as the value's TOML normal form) or refused (Err, zero bytes written by that call); every later document or call is refused with zero bytes; after every call the total output is empty or exactly the accepted document. Unit 'paths' enumerates every node path of generated trees for every refusable kind and every source format. Non-trivial = history with >= 2 documents or a refusal planted at depth >= 2; distinct by hash of the history.".into()
    }
    fn assumptions(&self) -> Vec<String> {
        vec![
            "for binary, ext, f32 and non-string non-null keys the statement does not say refuse-or-accept: the check only requires 'nothing and Err' or 'one valid TOML document'".into(),
            "K5 (ordering of nested arrays containing tables) is excluded by its input-side predicate plus exact licensed shape".into(),
        ]
    }
    fn units(&self, tier: Tier) -> Vec<Unit> {
        vec![Unit::gen("history", 16, tier.pick(12_000, 100_000)), Unit::gen("paths", 8, tier.pick(150, 1500)), Unit::gen("cli", 8, tier.pick(150, 2500)), Unit::enumerate("cli_large", 8)]
    }
    fn required_classes(&self, _tier: Tier) -> Vec<&'static str> {
        vec!["accepted_document", "refusable_document", "second_document_or_input", "unspecified_document", "refusal_at_depth", "calls:2", "calls:3", "paths:null", "paths:oversized_int", "paths:nonroot_key_null", "short_writes", "toml_source_with_datetime", "cli:all_translated", "cli:refused", "cli:later_input_after_accepted_document", "cli_large:first_document_over_8k", "cli_large:refused_after_large_document", "cli_large:all_translated"]
    }
    fn run_unit(&self, unit: &Unit, _shard: u32, seed: u64, _tier: Tier, rec: &mut Recorder) {
        match unit.name {
            "cli_large" => {
                // sizes around the 8 KiB and 64 KiB buffer and pipe sizes, and well beyond
                let sizes = [4000usize, 8100, 8400, 9000, 16_500, 33_000, 66_000, 200_000];
                let size = sizes[_shard as usize % sizes.len()];
                for src in ["json", "yaml"] {
                    for route in ["one_file", "two_files", "stdin"] {
                        for second in ["none", "table", "null_inside", "scalar"] {
                            let case = json!({"unit": "cli_large", "size": size, "src": src, "route": route, "second": second});
                            if let Err(m) = check_cli_large(&case, rec) {
                                rec.fail(m, case);
                                return;
                            }
                        }
                    }
                }
            }
            "history" => run_prop(rec, seed, unit.cases, history_strategy(), history_json, check_history),
            "cli" => run_prop(
                rec,
                seed,
                unit.cases,
                history_strategy(),
                |h| {
                    let mut j = history_json(h);
                    j["unit"] = json!("cli");
                    j
                },
                check_cli_history,
            ),
            "paths" => {
                let strat = (val_strategy(Shape { depth: 4, size: 14, ..Shape::COMMON }).prop_map(table_rooted), style_strategy());
                let cell = std::cell::RefCell::new(None::<J>);
                run_prop(
                    rec,
                    seed,
                    unit.cases,
                    strat,
                    |(v, s)| cell.borrow().clone().unwrap_or_else(|| json!({"unit": "paths_tree", "tree": v.to_json(), "style": s.to_json()})),
                    |(tree, style), r| {
                        let n = tree.node_count();
                        for (kind, bad) in [("null", Val::Null), ("oversized_int", Val::Int(u64::MAX as i128)), ("bytes", Val::Bytes(vec![0, 159, 146, 150])), ("nonroot_key_null", Val::Null)] {
                            for idx in 1..n {
                                let mut i = idx;
                                let mut hit_key = false;
                                let doc = plant(tree, &mut i, &bad, &mut hit_key);
                                if (kind == "nonroot_key_null") != hit_key {
                                    continue;
                                }
                                for fmt in [Fmt::Json, Fmt::Yaml, Fmt::Msgpack] {
                                    if !writable(&doc, fmt) {
                                        continue;
                                    }
                                    let h = History { calls: vec![Call { input: InputSpec { fmt, docs: vec![DocSpec { v: doc.clone(), style: style.clone(), sep: 0, boundary: None }], mode: if idx % 2 == 0 { Mode::Slice } else { Mode::Reader(crate::sio::Sched::Fixed(3)) }, detect: false, empty_variant: 0 } }] };
                                    r.class(&format!("paths:{}", kind));
                                    if let Err(m) = check_history(&h, r) {
                                        *cell.borrow_mut() = Some(history_json(&h));
                                        return Err(format!("{} planted at node {}: {}", kind, idx, m));
                                    }
                                }
                            }
                        }
                        Ok(())
                    },
                );
            }
            other => panic!("unknown unit {}", other),
        }
    }
    fn replay(&self, case: &J) -> Result<(), String> {
        let mut rec = Recorder::default();
        if case["unit"].as_str() == Some("paths_tree") {
            return Err("paths_tree cases are re-reported as histories".into());
        }
        if case["unit"].as_str() == Some("cli_large") {
            return check_cli_large(case, &mut rec);
        }
        if case["unit"].as_str() == Some("cli") {
            return check_cli_history(&history_from_json(case).ok_or("bad history")?, &mut rec);
        }
        check_history(&history_from_json(case).ok_or("bad history")?, &mut rec)
    }
    fn confirm_known(&self, k: &Known) -> bool {
        if k.class == "yaml_nonfirst_null_key_to_toml" {
            let text = k.example.get("yaml").and_then(|s| s.as_str()).unwrap_or("");
            let o = run_slice(text.as_bytes(), Some(Fmt::Yaml), Fmt::Toml);
            return o.verdict.is_ok() && !o.out.is_empty();
        }
        crate::checks::c01::C01.confirm_known(k)
    }
}
