//! C12 I/O faults and partial I/O are handled faithfully by the library.

use proptest::prelude::*;
use serde_json::{json, Value as J};

use crate::corpus::*;
use crate::model::*;
use crate::runner::*;
use crate::sio::*;
use crate::util::*;
use crate::xtapi::*;

pub struct C12;

#[derive(Clone, Debug)]
struct Case {
    bytes: Vec<u8>,
    a: Fmt,
    detect: bool,
    to: Fmt,
    sched: Sched,
    chunks: Vec<usize>,
}

fn case_strategy() -> BoxedStrategy<Case> {
    (
        prop_oneof![
            6 => stream_strategy(4, Shape { depth: 4, size: 14, ..Shape::COMMON_NULL }),
            1 => stream_strategy(3, Shape::COMMON_NULL),
            // YAML in UTF-16/32: the re-encoder sits between the reader and the parser
            2 => (stream_strategy(3, Shape { depth: 3, size: 8, ..Shape::COMMON_NULL }), 0usize..4, any::<bool>()).prop_map(|(s, enc, bom)| {
                let docs: Vec<_> = s.docs.iter().filter(|d| crate::wr_yaml::supports(d)).cloned().collect();
                let docs = if docs.is_empty() { vec![crate::model::Val::Seq(vec![])] } else { docs };
                let text = crate::wr_yaml::write_stream(&docs, &[Style::canonical()], &[0, 1, 0]);
                let bom = bom || !text.chars().next().map_or(false, |c| c.is_ascii());
                crate::corpus::Stream { fmt: Fmt::Yaml, docs, bytes: crate::checks::c07::encode_text(&text, crate::checks::c07::ENCODINGS[enc], bom) }
            }),
        ],
        any::<bool>(),
        crate::checks::c01::fmt_strategy(),
        sched_strategy(),
        proptest::collection::vec(1usize..9, 1..5),
    )
        .prop_map(|(s, detect, to, sched, chunks)| Case { bytes: s.bytes, a: s.fmt, detect, to, sched, chunks })
        .boxed()
}

fn case_json(c: &Case, extra: J) -> J {
    let mut j = json!({"unit": "faults", "bytes": hex(&c.bytes), "text": brief_bytes(&c.bytes), "a": c.a.name(), "detect": c.detect, "to": c.to.name(),
                       "sched": c.sched.to_json(), "chunks": c.chunks});
    if let (Some(o), Some(e)) = (j.as_object_mut(), extra.as_object()) {
        for (k, v) in e {
            o.insert(k.clone(), v.clone());
        }
    }
    j
}

/// Complete documents of a (possibly truncated) output, as byte chunks.
fn complete_docs(out: &[u8], to: Fmt, truncated: bool) -> Vec<Vec<u8>> {
    match to {
        Fmt::Json => {
            let mut docs: Vec<Vec<u8>> = out.split(|b| *b == b'\n').map(|l| l.to_vec()).collect();
            docs.pop(); // text after the last newline (empty for complete output)
            docs
        }
        Fmt::Yaml => {
            // documents are introduced by a line "---"
            let mut docs: Vec<Vec<u8>> = vec![];
            let mut cur: Option<Vec<u8>> = None;
            for line in out.split_inclusive(|b| *b == b'\n') {
                if line == b"---\n" {
                    if let Some(d) = cur.take() {
                        docs.push(d);
                    }
                    cur = Some(vec![]);
                } else if let Some(c) = cur.as_mut() {
                    c.extend_from_slice(line);
                }
            }
            if let (Some(d), false) = (cur, truncated) {
                docs.push(d);
            }
            docs
        }
        Fmt::Msgpack => {
            let mut docs = vec![];
            let mut rest = out;
            while !rest.is_empty() {
                match crate::rd_msgpack::first_value_size(rest) {
                    Ok(n) => {
                        docs.push(rest[..n].to_vec());
                        rest = &rest[n..];
                    }
                    Err(_) => break,
                }
            }
            docs
        }
        Fmt::Toml => {
            if out.is_empty() {
                vec![]
            } else {
                vec![out.to_vec()]
            }
        }
    }
}

fn from_of(c: &Case) -> Option<Fmt> {
    if c.detect {
        None
    } else {
        Some(c.a)
    }
}

fn check_case(c: &Case, rec: &mut Recorder) -> Result<(), (String, J)> {
    let from = from_of(c);
    // fault-free run (reader, same schedule)
    let clean = run_sched(&c.bytes, &c.sched, from, c.to);
    if let Verdict::Panic(p) = &clean.verdict {
        return Err((format!("panic without any fault: {}", p), case_json(c, json!({}))));
    }
    let clean_docs = complete_docs(&clean.out, c.to, !clean.verdict.is_ok());
    let n = c.bytes.len();
    // --- reader faults at every offset (sampled above 2 KiB)
    let ks: Vec<usize> = if n <= 2048 { (0..=n).collect() } else { (0..=256).map(|i| i * n / 256).collect() };
    for k in ks {
        let mut out = vec![];
        // the error itself comes in three makes: a custom error with a message, a raw
        // OS error (what a File returns) and a bare ErrorKind without payload
        let fail_kind = ((k + n) % 5) as u8;
        let expected_text = injected_read_error_kind(k, fail_kind).to_string();
        let mut failing = SchedReader::failing(&c.bytes, c.sched.clone(), k);
        failing.fail_kind = fail_kind;
        let verdict = guarded(|| xt::translate_reader(failing, from.map(Fmt::xt), c.to.xt(), &mut out));
        let cj = || case_json(c, json!({"fault": "reader", "k": k, "fail_kind": fail_kind}));
        match &verdict {
            Verdict::Panic(p) => return Err((format!("reader failing at byte {}: panic: {}", k, p), cj())),
            Verdict::Ok => return Err((format!("reader failing at byte {} of {}: the translation reported success (output {:?})", k, n, brief_bytes(&out)), cj())),
            Verdict::Err(e) => {
                // a fault-free failure that strikes before byte k is read is legitimate
                let own_failure = !clean.verdict.is_ok() && *e == clean.verdict.text();
                if !own_failure && !e.contains(&expected_text) {
                    return Err((format!("reader failing at byte {} of {}: the reader's error text is not preserved: {:?}", k, n, e), cj()));
                }
            }
        }
        let docs = complete_docs(&out, c.to, true);
        if docs.len() > clean_docs.len() || docs[..] != clean_docs[..docs.len()] {
            return Err((
                format!(
                    "reader failing at byte {} of {}: the complete documents delivered ({}) are not a prefix of the fault-free documents ({}): {:?} vs {:?}",
                    k,
                    n,
                    docs.len(),
                    clean_docs.len(),
                    brief_bytes(&out),
                    brief_bytes(&clean.out)
                ),
                cj(),
            ));
        }
        let after_first_doc = !docs.is_empty();
        rec.count(if after_first_doc || (c.detect && k > 0) { Some(hash_bytes(&[&c.bytes, c.to.name().as_bytes(), b"r", &(k as u64).to_le_bytes(), opt_name(from).as_bytes()])) } else { None });
        rec.class("fault:reader");
        rec.class(["reader_error:custom", "reader_error:raw_os", "reader_error:bare_kind", "reader_error:unexpected_eof_kind", "reader_error:invalid_data_kind"][fail_kind as usize]);
        if after_first_doc {
            rec.class("fault:reader_after_first_document");
        }
    }
    // --- a transient fault: ONE read fails with ErrorKind::Interrupted once k bytes
    // were delivered, then the reader works again. Either the error is reported,
    // or the whole input is translated: never success with part of the input.
    // Only with the source format named: under detection a transient error during a
    // trial legitimately reads as "not this format" and another format may then
    // accept the same bytes (the statement only speaks of readers that keep failing).
    if clean.verdict.is_ok() && !c.detect {
        let ks: Vec<usize> = if n <= 512 { (0..=n).collect() } else { (0..=128).map(|i| i * n / 128).collect() };
        for k in ks {
            let mut out = vec![];
            let mut reader = SchedReader::new(&c.bytes, c.sched.clone());
            reader.interrupt_at = Some(k);
            let verdict = guarded(|| xt::translate_reader(&mut reader, from.map(Fmt::xt), c.to.xt(), &mut out));
            let cj = || case_json(c, json!({"fault": "interrupted_once", "k": k}));
            match &verdict {
                Verdict::Panic(p) => return Err((format!("reader interrupted once at byte {}: panic: {}", k, p), cj())),
                Verdict::Ok => {
                    if out != clean.out {
                        return Err((
                            format!("reader interrupted once at byte {} of {}: the translation reported success with output {:?}, the fault-free output is {:?}", k, n, brief_bytes(&out), brief_bytes(&clean.out)),
                            cj(),
                        ));
                    }
                }
                Verdict::Err(_) => {
                    if !is_prefix(&out, &clean.out) && complete_docs(&out, c.to, true).iter().zip(&clean_docs).any(|(a, b)| a != b) {
                        return Err((format!("reader interrupted once at byte {}: documents written before the error differ from the fault-free output", k), cj()));
                    }
                }
            }
            rec.count(if k > 0 { Some(hash_bytes(&[&c.bytes, c.to.name().as_bytes(), b"i", &(k as u64).to_le_bytes()])) } else { None });
            rec.class("fault:reader_interrupted_once");
        }
    }
    // --- writer faults at every offset of the fault-free output
    if clean.verdict.is_ok() {
        let m = clean.out.len();
        let ks: Vec<usize> = if m <= 1024 { (0..m).collect() } else { (0..256).map(|i| i * m / 256).collect() };
        for k in ks {
            let mut w = FaultWriter::new(Some(k), None);
            let verdict = guarded(|| xt::translate_reader(SchedReader::new(&c.bytes, c.sched.clone()), from.map(Fmt::xt), c.to.xt(), &mut w));
            let cj = || case_json(c, json!({"fault": "writer", "k": k}));
            match &verdict {
                Verdict::Panic(p) => return Err((format!("writer failing at byte {}: panic: {}", k, p), cj())),
                Verdict::Ok => return Err((format!("writer failing at byte {} of {}: the translation reported success", k, m), cj())),
                Verdict::Err(_) => {}
            }
            if !is_prefix(&w.accepted, &clean.out) {
                return Err((format!("writer failing at byte {}: the accepted bytes {:?} are not a prefix of the fault-free output {:?}", k, brief_bytes(&w.accepted), brief_bytes(&clean.out)), cj()));
            }
            rec.count(if k > 0 { Some(hash_bytes(&[&c.bytes, c.to.name().as_bytes(), b"w", &(k as u64).to_le_bytes()])) } else { None });
            rec.class("fault:writer");
            // the same fault with slice input, and a writer that has no room left
            // (answers Ok(0), as a full fixed-size buffer does) for both supplies
            for (kind, slice_input, full) in [("writer_slice_input", true, false), ("writer_full", false, true), ("writer_full_slice_input", true, true)] {
                let mut w = if full { FaultWriter::full_after(k) } else { FaultWriter::new(Some(k), None) };
                let verdict = if slice_input {
                    guarded(|| xt::translate_slice(&c.bytes, from.map(Fmt::xt), c.to.xt(), &mut w))
                } else {
                    guarded(|| xt::translate_reader(SchedReader::new(&c.bytes, c.sched.clone()), from.map(Fmt::xt), c.to.xt(), &mut w))
                };
                let cj = || case_json(c, json!({"fault": kind, "k": k}));
                match &verdict {
                    Verdict::Panic(p) => return Err((format!("{} at byte {}: panic: {}", kind, k, p), cj())),
                    Verdict::Ok => {
                        // slice and reader supply may legitimately disagree on this input (C02's known classes)
                        if slice_input && crate::checks::c02::diff_supply(&c.bytes, from, c.to, &c.sched, "C02").map_or(false, |(k, _, _)| k.is_some()) {
                            continue;
                        }
                        return Err((format!("{} at byte {} of {}: the translation reported success although the writer took only {} bytes", kind, k, m, w.accepted.len()), cj()));
                    }
                    Verdict::Err(_) => {}
                }
                if !slice_input && !is_prefix(&w.accepted, &clean.out) {
                    return Err((format!("{} at byte {}: the accepted bytes {:?} are not a prefix of the fault-free output {:?}", kind, k, brief_bytes(&w.accepted), brief_bytes(&clean.out)), cj()));
                }
                rec.class(&format!("fault:{}", kind));
            }
        }
        // --- short writes never failing
        for chunks in [vec![1usize], c.chunks.clone()] {
            let mut w = FaultWriter::new(None, Some(chunks.clone()));
            let verdict = guarded(|| xt::translate_reader(SchedReader::new(&c.bytes, c.sched.clone()), from.map(Fmt::xt), c.to.xt(), &mut w));
            let cj = || case_json(c, json!({"fault": "short_writes", "pattern": chunks}));
            if !verdict.is_ok() || w.accepted != clean.out {
                return Err((
                    format!("a writer accepting short pieces {:?} received {:?} ({}), the fault-free output is {:?}", chunks, brief_bytes(&w.accepted), verdict.brief(), brief_bytes(&clean.out)),
                    cj(),
                ));
            }
            rec.count(Some(hash_bytes(&[&c.bytes, c.to.name().as_bytes(), b"s", &(chunks.len() as u64).to_le_bytes()])));
            rec.class("fault:short_writes");
        }
        // slice input with a failing writer / short writes as well
        let mut w = FaultWriter::new(None, Some(c.chunks.clone()));
        let verdict = guarded(|| xt::translate_slice(&c.bytes, from.map(Fmt::xt), c.to.xt(), &mut w));
        if verdict.is_ok() && w.accepted != clean.out && crate::checks::c02::diff_supply(&c.bytes, from, c.to, &c.sched, "C02").map_or(true, |(k, _, _)| k.is_none()) {
            return Err((format!("slice input with short writes produced {:?}, expected {:?}", brief_bytes(&w.accepted), brief_bytes(&clean.out)), case_json(c, json!({"fault": "short_writes_slice"}))));
        }
    }
    rec.class(&format!("from:{}", opt_name(from)));
    rec.class(&format!("to:{}", c.to.name()));
    rec.class(if clean.verdict.is_ok() { "fault_free:ok" } else { "fault_free:err" });
    rec.sample(|| json!({"a": c.a.name(), "from": opt_name(from), "to": c.to.name(), "sched": c.sched.class(), "input_len": n, "output_len": clean.out.len(), "input": brief_bytes(&c.bytes)}));
    Ok(())
}

/// A writer whose flush is observable / can fail.
struct FlushProbe {
    inner: Vec<u8>,
    flushes: usize,
    fail_flush: bool,
}

impl std::io::Write for FlushProbe {
    fn write(&mut self, buf: &[u8]) -> std::io::Result<usize> {
        self.inner.extend_from_slice(buf);
        Ok(buf.len())
    }
    fn flush(&mut self) -> std::io::Result<()> {
        self.flushes += 1;
        if self.fail_flush {
            Err(std::io::Error::new(std::io::ErrorKind::Other, "INJECTED-FLUSH"))
        } else {
            Ok(())
        }
    }
}

fn check_flush(rec: &mut Recorder) -> Result<(), (String, J)> {
    for to in FORMATS {
        for fail in [false, true] {
            let mut w = FlushProbe { inner: vec![], flushes: 0, fail_flush: fail };
            let res = {
                let mut t = xt::Translator::new(&mut w, to.xt());
                let _ = t.translate_slice(b"{\"a\":1}", Some(xt::Format::Json));
                t.flush()
            };
            let cj = json!({"unit": "flush", "to": to.name(), "fail": fail});
            if w.flushes == 0 {
                return Err((format!("Translator::flush did not reach the {} writer", to.name()), cj));
            }
            match (fail, &res) {
                (true, Ok(())) => return Err((format!("a failing flush of the {} writer was reported as success", to.name()), cj)),
                (true, Err(e)) if !e.to_string().contains("INJECTED-FLUSH") => return Err((format!("the flush error text is not preserved: {}", e), cj)),
                (false, Err(e)) => return Err((format!("flush failed without a fault: {}", e), cj)),
                _ => {}
            }
            rec.count(Some(hash_of(&cj.to_string())));
            rec.class("fault:flush");
        }
    }
    Ok(())
}

impl Check for C12 {
    fn id(&self) -> &'static str {
        "C12"
    }
    fn level(&self) -> &'static str {
        "fault_enumeration"
    }
    fn rule(&self) -> String {
        "For generated valid streams (1..4 documents of each format, YAML also re-encoded as UTF-16/32; source named or detected; every target; a drawn read schedule): (a) a reader that fails - and keeps failing - once k bytes were delivered, for EVERY k in 0..=|input| (257 spread values above 2 KiB): the result must be Err whose text contains the reader's own error text (the error is, in turn, a custom error carrying INJECTED-R-k, a raw OS error as a File returns it, a bare ErrorKind without payload, and custom errors of the kinds UnexpectedEof and InvalidData, which parsers also produce themselves) (or the input's own fault-free error when that strikes first), never Ok or a panic, and the complete documents in the partial output (lines for JSON, '---'-introduced documents for YAML, whole values for MessagePack, all-or-nothing for TOML) must be, in order, a prefix of the fault-free documents; (b) a writer that accepts exactly k bytes and then fails - with an error, or by answering Ok(0) like a full fixed-size buffer -, for EVERY k below the fault-free output length (256 spread values above 1 KiB), reader and slice input: Err, and the accepted bytes are a prefix of the fault-free output; (a') a reader of which ONE read fails with ErrorKind::Interrupted after k bytes and which then works again, for every k, source format named: Err, or Ok with exactly the fault-free output (an addition beyond the statement's keep-failing readers; it holds on the unchanged tree); (c) a writer that only accepts short pieces (1 byte; a drawn pattern) and never fails: Ok and exactly the fault-free bytes; unit 'flush' checks that Translator::flush reaches the writer and preserves its error. One evaluation = one injected fault; non-trivial = the fault lands after the first document or inside detection's look-ahead (reader), after byte 0 (writer), any short-write run; distinct by hash of (input, target, fault kind, k).".into()
    }
    fn assumptions(&self) -> Vec<String> {
        vec!["faulty readers keep failing once they failed (as the statement says)".into()]
    }
    fn units(&self, tier: Tier) -> Vec<Unit> {
        vec![Unit::gen("faults", 16, tier.pick(600, 6000)), Unit::enumerate("flush", 1)]
    }
    fn required_classes(&self, _tier: Tier) -> Vec<&'static str> {
        vec!["fault:reader", "reader_error:custom", "reader_error:raw_os", "reader_error:bare_kind", "reader_error:unexpected_eof_kind", "reader_error:invalid_data_kind", "fault:reader_interrupted_once", "fault:reader_after_first_document", "fault:writer", "fault:writer_full", "fault:writer_slice_input", "fault:short_writes", "fault:flush", "from:detect", "from:yaml", "from:json", "from:msgpack", "from:toml", "to:json", "to:yaml", "to:toml", "to:msgpack"]
    }
    fn run_unit(&self, unit: &Unit, _shard: u32, seed: u64, _tier: Tier, rec: &mut Recorder) {
        match unit.name {
            "faults" => {
                let cell = std::cell::RefCell::new(None::<J>);
                run_prop(
                    rec,
                    seed,
                    unit.cases,
                    case_strategy(),
                    |c| cell.borrow().clone().unwrap_or_else(|| case_json(c, json!({}))),
                    |c, r| {
                        *cell.borrow_mut() = None;
                        check_case(c, r).map_err(|(m, j)| {
                            *cell.borrow_mut() = Some(j);
                            m
                        })
                    },
                );
            }
            "flush" => {
                if let Err((m, j)) = check_flush(rec) {
                    rec.fail(m, j);
                }
            }
            other => panic!("unknown unit {}", other),
        }
    }
    fn replay(&self, case: &J) -> Result<(), String> {
        let mut rec = Recorder::default();
        if case["unit"].as_str() == Some("flush") {
            return check_flush(&mut rec).map_err(|(m, _)| m);
        }
        let c = Case {
            bytes: unhex(case["bytes"].as_str().ok_or("no bytes")?).ok_or("bad hex")?,
            a: Fmt::from_name(case["a"].as_str().ok_or("no a")?).ok_or("bad a")?,
            detect: case["detect"].as_bool().unwrap_or(false),
            to: Fmt::from_name(case["to"].as_str().ok_or("no to")?).ok_or("bad to")?,
            sched: Sched::from_json(&case["sched"]).ok_or("bad sched")?,
            chunks: case["chunks"].as_array().map(|a| a.iter().filter_map(|x| x.as_u64().map(|x| x as usize)).collect()).unwrap_or_else(|| vec![1]),
        };
        check_case(&c, &mut rec).map_err(|(m, _)| m)
    }
}
