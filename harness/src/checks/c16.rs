//! C16 Broken pipes and other write errors at the CLI.

use std::ffi::OsString;

use proptest::prelude::*;
use serde_json::{json, Value as J};

use crate::cli::*;
use crate::runner::*;
use crate::util::*;
use crate::xtapi::*;

pub struct C16;

#[derive(Clone, Debug)]
struct Case {
    to: Fmt,
    /// number of input files
    inputs: usize,
    /// documents per input and padding per document
    docs: usize,
    pad: usize,
    /// the consumer reads this many bytes, then closes its end
    close_after: usize,
    small_pipe: bool,
    via_stdin: bool,
    debug: bool,
}

impl Case {
    fn to_json(&self) -> J {
        json!({"unit": "pipe", "to": self.to.name(), "inputs": self.inputs, "docs": self.docs, "pad": self.pad, "close_after": self.close_after,
               "small_pipe": self.small_pipe, "via_stdin": self.via_stdin, "debug": self.debug})
    }
    fn from_json(j: &J) -> Option<Case> {
        Some(Case {
            to: Fmt::from_name(j["to"].as_str()?)?,
            inputs: j["inputs"].as_u64()? as usize,
            docs: j["docs"].as_u64()? as usize,
            pad: j["pad"].as_u64()? as usize,
            close_after: j["close_after"].as_u64()? as usize,
            small_pipe: j["small_pipe"].as_bool()?,
            via_stdin: j["via_stdin"].as_bool()?,
            debug: j["debug"].as_bool()?,
        })
    }
}

fn input_text(docs: usize, pad: usize, idx: usize) -> Vec<u8> {
    let mut s = String::new();
    for d in 0..docs {
        s.push_str(&format!("{{\"i\":{},\"d\":{},\"pad\":\"{}\",\"l\":[1,2.5,true,null,\"s\"]}}\n", idx, d, "p".repeat(pad)));
    }
    s.into_bytes()
}

fn case_strategy() -> BoxedStrategy<Case> {
    (
        prop_oneof![Just(Fmt::Json), Just(Fmt::Yaml), Just(Fmt::Msgpack), Just(Fmt::Toml)],
        prop_oneof![3 => Just(1usize), 2 => 2usize..8, 1 => 8usize..40],
        prop_oneof![2 => Just(1usize), 2 => 2usize..30],
        prop_oneof![2 => 0usize..100, 2 => 100usize..3000, 1 => 3000usize..40_000],
        prop_oneof![3 => Just(0usize), 2 => 1usize..200, 2 => 200usize..20_000, 2 => 20_000usize..300_000],
        any::<bool>(),
        any::<bool>(),
        any::<bool>(),
    )
        .prop_map(|(to, inputs, docs, pad, close_after, small_pipe, via_stdin, debug)| {
            let (inputs, docs) = if to == Fmt::Toml { (1, 1) } else { (inputs, docs) };
            Case { to, inputs, docs, pad, close_after, small_pipe, via_stdin: via_stdin && inputs == 1, debug }
        })
        .boxed()
}

fn check_case(c0: &Case, rec: &mut Recorder) -> Result<(), String> {
    let mut c = c0.clone();
    let cap = if c.small_pipe { 4096 } else { 65536 };
    // fault-free output size, from the library
    let total_for = |c: &Case| -> usize {
        let mut out = vec![];
        {
            let mut t = xt::Translator::new(&mut out, c.to.xt());
            for i in 0..c.inputs {
                let text = if c.to == Fmt::Toml { toml_input(c.pad) } else { input_text(c.docs, c.pad, i) };
                if t.translate_slice(&text, Some(if c.to == Fmt::Toml { xt::Format::Toml } else { xt::Format::Json })).is_err() {
                    break;
                }
            }
        }
        out.len()
    };
    // make sure more than a pipe capacity plus the 8 KiB stdout buffer remains unwritten at the closing point
    let need = c.close_after + cap + 8192 + 4096;
    let mut total = total_for(&c);
    let mut guard = 0;
    while total <= need && guard < 40 {
        if c.to == Fmt::Toml {
            c.pad = c.pad * 2 + 20_000;
        } else if c.inputs > 1 {
            c.inputs += 1 + c.inputs / 2;
        } else {
            c.docs = c.docs * 2 + 1;
            c.pad += 500;
        }
        total = total_for(&c);
        guard += 1;
    }
    if total <= need {
        rec.reject();
        return Ok(());
    }
    let sc = Scratch::new("c16");
    let mut args: Vec<OsString> = vec![format!("-t{}", c.to.name()).into()];
    let mut stdin = StdinSpec::Null;
    if c.via_stdin {
        args.push("-fjson".into());
        stdin = StdinSpec::Bytes(input_text(c.docs, c.pad, 0));
        if c.to == Fmt::Toml {
            args[1] = "-ftoml".into();
            stdin = StdinSpec::Bytes(toml_input(c.pad));
        }
    } else {
        for i in 0..c.inputs {
            let (name, text) = if c.to == Fmt::Toml { (format!("in{}.toml", i), toml_input(c.pad)) } else { (format!("in{}.json", i), input_text(c.docs, c.pad, i)) };
            sc.file(&name, &text);
            args.push(name.into());
        }
    }
    let bin = if c.debug { Bin::Debug } else { Bin::Release };
    let res = run_xt(bin, &args, &sc.dir, stdin, StdoutSpec::ClosingPipe { after: c.close_after, pipe_size: if c.small_pipe { Some(4096) } else { None } }, vec![]);
    if res.timed_out {
        return Err("the run did not end within 60 s after the consumer went away".into());
    }
    if res.signal != Some(libc::SIGPIPE) {
        return Err(format!(
            "the consumer of stdout went away after {} of {} bytes (pipe capacity {}), but xt ended with {} instead of being terminated by SIGPIPE",
            c.close_after,
            total,
            cap,
            res.brief()
        ));
    }
    if !res.stderr.is_empty() {
        return Err(format!("terminated by SIGPIPE but wrote to standard error: {:?}", String::from_utf8_lossy(&res.stderr)));
    }
    // how the output reaches the pipe decides which Write method meets the error
    let per_input = total / c.inputs.max(1);
    rec.count(Some(hash_of(&c.to_json().to_string())));
    rec.class(&format!("to:{}", c.to.name()));
    rec.class(if per_input < 8192 { "error_met_in_per_input_flush" } else { "error_met_in_buffered_write" });
    rec.class(if c.via_stdin { "input:stdin" } else if c.inputs > 1 { "input:many_files" } else { "input:one_file" });
    rec.class(if c.close_after == 0 { "close:at_0" } else if c.close_after < cap { "close:within_first_capacity" } else { "close:after_several_capacities" });
    rec.class(if c.small_pipe { "pipe:4KiB" } else { "pipe:64KiB" });
    rec.sample(|| json!({"case": c.to_json(), "total_output": total, "observed": res.status()}));
    Ok(())
}

fn toml_input(pad: usize) -> Vec<u8> {
    format!("title = \"{}\"\n[t]\nl = [1, 2.5, true]\n", "p".repeat(pad)).into_bytes()
}

fn check_devfull(to: Fmt, big: bool, debug: bool, many: bool, rec: &mut Recorder) -> Result<(), String> {
    let sc = Scratch::new("c16f");
    let mut args: Vec<OsString> = vec![format!("-t{}", to.name()).into()];
    let pad = if big { 30_000 } else { 10 };
    let n = if many && to != Fmt::Toml { 3 } else { 1 };
    for i in 0..n {
        let (name, text) = if to == Fmt::Toml { (format!("in{}.toml", i), toml_input(pad)) } else { (format!("in{}.json", i), input_text(2, pad, i)) };
        sc.file(&name, &text);
        args.push(name.into());
    }
    let res = run_xt(if debug { Bin::Debug } else { Bin::Release }, &args, &sc.dir, StdinSpec::Null, StdoutSpec::DevFull, vec![]);
    if res.code != Some(1) {
        return Err(format!("stdout on /dev/full ({} output, -t {}): expected exit 1, got {}", if big { "large" } else { "small" }, to.name(), res.brief()));
    }
    let stderr = String::from_utf8_lossy(&res.stderr);
    if !stderr.starts_with("xt error") {
        return Err(format!("stdout on /dev/full: no 'xt error' message: {:?}", stderr));
    }
    rec.count(Some(hash_of(&format!("{}{}{}{}", to.name(), big, debug, many))));
    rec.class(if big { "devfull:above_buffer" } else { "devfull:below_buffer" });
    rec.sample(|| json!({"devfull": true, "to": to.name(), "big": big, "stderr": stderr}));
    Ok(())
}

/// Standard output that cannot take the output for another reason than a vanished
/// pipe reader: a stream socket whose peer is gone (terminated by SIGPIPE, like a
/// pipe), and a full pipe in non-blocking mode (EAGAIN: exit 1 with a message).
fn check_other_stdout(kind: &str, to: Fmt, big: bool, debug: bool, via_stdin: bool, rec: &mut Recorder) -> Result<(), String> {
    let sc = Scratch::new("c16o");
    let mut args: Vec<OsString> = vec![format!("-t{}", to.name()).into()];
    let pad = if big { 30_000 } else { 10 };
    let text = if to == Fmt::Toml { toml_input(pad) } else { input_text(2, pad, 0) };
    let mut stdin = StdinSpec::Null;
    if via_stdin {
        args.push(if to == Fmt::Toml { "-ftoml".into() } else { "-fjson".into() });
        stdin = StdinSpec::Bytes(text);
    } else {
        let name = if to == Fmt::Toml { "in0.toml" } else { "in0.json" };
        sc.file(name, &text);
        args.push(name.into());
    }
    let spec = if kind == "socket" { StdoutSpec::ClosedSocket } else { StdoutSpec::FullNonBlockingPipe };
    let res = run_xt(if debug { Bin::Debug } else { Bin::Release }, &args, &sc.dir, stdin, spec, vec![]);
    let what = format!("stdout a {} ({} output, -t {}, input from {})", if kind == "socket" { "stream socket whose peer is gone" } else { "full non-blocking pipe" }, if big { "large" } else { "small" }, to.name(), if via_stdin { "stdin" } else { "a file" });
    if res.timed_out {
        return Err(format!("{}: the run did not end within 60 s", what));
    }
    if kind == "socket" {
        if res.signal != Some(libc::SIGPIPE) {
            return Err(format!("{}: xt ended with {} instead of being terminated by SIGPIPE", what, res.brief()));
        }
    } else {
        if res.code != Some(1) {
            return Err(format!("{}: expected exit 1, got {}", what, res.brief()));
        }
        if !String::from_utf8_lossy(&res.stderr).starts_with("xt error") {
            return Err(format!("{}: no 'xt error' message: {:?}", what, String::from_utf8_lossy(&res.stderr)));
        }
    }
    rec.count(Some(hash_of(&format!("{}{}{}{}{}", kind, to.name(), big, debug, via_stdin))));
    rec.class(if kind == "socket" { "stdout:socket_peer_gone" } else { "stdout:full_nonblocking_pipe" });
    Ok(())
}

impl Check for C16 {
    fn id(&self) -> &'static str {
        "C16"
    }
    fn level(&self) -> &'static str {
        "fault_enumeration"
    }
    fn rule(&self) -> String {
        "The real binaries write to a pipe whose consumer (the harness) reads exactly k bytes and then closes its end: k = 0, 1..200, hundreds to 20,000, up to 300,000 (several pipe capacities); pipe capacity 4 KiB (F_SETPIPE_SZ) or the default 64 KiB; every target; input from one file, many files (so that the failing call is the per-input flush when each output is below the 8 KiB buffer, or a buffered write when above) or standard input; inputs are sized from the library's own output length so that more than a pipe capacity plus the 8 KiB buffer remains unwritten at k - the outcome is therefore decided by construction, not by timing. Oracle: wait status 'terminated by SIGPIPE', standard error empty. Unit 'devfull': stdout on /dev/full with outputs below and above the buffer size, one and several inputs, all targets, both binaries: exit 1 and an 'xt error' line; the same outputs to a stream socket whose peer is gone (terminated by SIGPIPE, as with a pipe) and to a full pipe in non-blocking mode (exit 1 and an 'xt error' line). One evaluation = one process run; all are non-trivial; distinct by hash of the case parameters.".into()
    }
    fn assumptions(&self) -> Vec<String> {
        vec!["Linux pipe semantics: a write to a pipe with no reader fails with EPIPE (SIGPIPE is ignored by the Rust runtime until xt re-raises it)".into()]
    }
    fn needs_cli(&self) -> bool {
        true
    }
    fn units(&self, tier: Tier) -> Vec<Unit> {
        vec![Unit::gen("pipe", 16, tier.pick(400, 4000)), Unit::enumerate("devfull", 2)]
    }
    fn required_classes(&self, _tier: Tier) -> Vec<&'static str> {
        vec![
            "to:json", "to:yaml", "to:msgpack", "to:toml", "error_met_in_per_input_flush", "error_met_in_buffered_write", "input:stdin", "input:many_files", "input:one_file", "close:at_0", "close:within_first_capacity",
            "close:after_several_capacities", "pipe:4KiB", "pipe:64KiB", "devfull:above_buffer", "devfull:below_buffer", "devfull:buffer_fills_inside_document", "stdout:socket_peer_gone", "stdout:full_nonblocking_pipe", "sigpipe_blocked_in_inherited_mask",
        ]
    }
    fn run_unit(&self, unit: &Unit, shard: u32, seed: u64, _tier: Tier, rec: &mut Recorder) {
        match unit.name {
            "pipe" => run_prop(rec, seed, unit.cases, case_strategy(), |c| c.to_json(), check_case),
            "devfull" => {
                // the 8 KiB buffer fills up at every position of a document in turn:
                // inside a string, at a bracket, at a ',' or ':' the serializer writes
                // on its own
                for pad in 8150..8215usize {
                    for shape in 0..2 {
                        let debug = shard == 0;
                        let text = if shape == 0 { format!("[\"{}\",1,2,3,4,5,6,7,8,9]", "p".repeat(pad)) } else { format!("{{\"k\":\"{}\",\"a\":1,\"b\":2,\"c\":3,\"d\":4}}", "p".repeat(pad)) };
                        let sc = Scratch::new("c16a");
                        let args: Vec<OsString> = vec!["-fjson".into(), "-tjson".into()];
                        let res = run_xt(if debug { Bin::Debug } else { Bin::Release }, &args, &sc.dir, StdinSpec::Bytes(text.into_bytes()), StdoutSpec::DevFull, vec![]);
                        if res.code != Some(1) || !String::from_utf8_lossy(&res.stderr).starts_with("xt error") {
                            rec.fail(
                                format!("stdout on /dev/full, JSON {} with a string of {} bytes first (the buffer fills inside the document): expected exit 1 and an 'xt error' line, got {}", if shape == 0 { "array" } else { "object" }, pad, res.brief()),
                                json!({"unit": "devfull_alignment", "pad": pad, "shape": shape, "debug": debug}),
                            );
                            return;
                        }
                        rec.count(Some(hash_of(&format!("align{}{}{}", pad, shape, debug))));
                        rec.class("devfull:buffer_fills_inside_document");
                    }
                }
                // SIGPIPE blocked in the inherited signal mask: raising it cannot end the
                // process; what remains is a quiet failure - never an abort, never success
                // (outputs larger than pipe capacity + buffer, so that the write must
                // meet the closed pipe whenever the consumer closes it)
                for to in FORMATS {
                    for big in [true] {
                        let debug = shard == 0;
                        let sc = Scratch::new("c16b");
                        let name = if to == Fmt::Toml { "in0.toml" } else { "in0.json" };
                        sc.file(name, &if to == Fmt::Toml { toml_input(if big { 30_000 } else { 10 }) } else { input_text(2, if big { 30_000 } else { 10 }, 0) });
                        let args: Vec<OsString> = vec![format!("-t{}", to.name()).into(), name.into()];
                        crate::cli::BLOCK_SIGPIPE.with(|b| b.set(true));
                        let res = run_xt(if debug { Bin::Debug } else { Bin::Release }, &args, &sc.dir, StdinSpec::Null, StdoutSpec::ClosingPipe { after: 0, pipe_size: Some(4096) }, vec![]);
                        crate::cli::BLOCK_SIGPIPE.with(|b| b.set(false));
                        let ok = res.signal == Some(libc::SIGPIPE) || (res.code == Some(1) && res.stderr.is_empty());
                        if !ok {
                            rec.fail(
                                format!("consumer of stdout gone and SIGPIPE blocked in the inherited mask ({} output, -t {}): expected termination by SIGPIPE or a quiet exit 1, got {}", if big { "large" } else { "small" }, to.name(), res.brief()),
                                json!({"unit": "blocked_sigpipe", "to": to.name(), "big": big, "debug": debug}),
                            );
                            return;
                        }
                        rec.count(Some(hash_of(&format!("blocked{}{}{}", to.name(), big, debug))));
                        rec.class("sigpipe_blocked_in_inherited_mask");
                    }
                }
                for to in FORMATS {
                    for big in [false, true] {
                        for many in [false, true] {
                            let debug = shard == 0;
                            if let Err(m) = check_devfull(to, big, debug, many, rec) {
                                rec.fail(m, json!({"unit": "devfull", "to": to.name(), "big": big, "debug": debug, "many": many}));
                                return;
                            }
                            for kind in ["socket", "nonblocking"] {
                                if let Err(m) = check_other_stdout(kind, to, big, debug, many, rec) {
                                    rec.fail(m, json!({"unit": "other_stdout", "kind": kind, "to": to.name(), "big": big, "debug": debug, "stdin": many}));
                                    return;
                                }
                            }
                        }
                    }
                }
            }
            other => panic!("unknown unit {}", other),
        }
    }
    fn replay(&self, case: &J) -> Result<(), String> {
        let mut rec = Recorder::default();
        if matches!(case["unit"].as_str(), Some("devfull_alignment") | Some("blocked_sigpipe")) {
            return Err("re-run ./check C16 quick (fixed enumeration)".into());
        }
        if case["unit"].as_str() == Some("other_stdout") {
            return check_other_stdout(case["kind"].as_str().ok_or("no kind")?, Fmt::from_name(case["to"].as_str().ok_or("no to")?).ok_or("bad to")?, case["big"].as_bool().unwrap_or(false), case["debug"].as_bool().unwrap_or(false), case["stdin"].as_bool().unwrap_or(false), &mut rec);
        }
        if case["unit"].as_str() == Some("devfull") {
            return check_devfull(Fmt::from_name(case["to"].as_str().ok_or("no to")?).ok_or("bad to")?, case["big"].as_bool().unwrap_or(false), case["debug"].as_bool().unwrap_or(false), case["many"].as_bool().unwrap_or(false), &mut rec);
        }
        check_case(&Case::from_json(case).ok_or("bad case")?, &mut rec)
    }
}
