//! C13 CLI exit status and stream discipline.

use proptest::prelude::*;
use serde_json::{json, Value as J};

use crate::cli::Bin;
use crate::climodel::*;
use crate::runner::*;
use crate::util::*;

pub struct C13;

/// The fixed set of files every invocation sees.
pub fn standard_files() -> Vec<FileSpec> {
    let reg = |n: &str, b: &[u8]| FileSpec { name: n.to_string(), kind: FileKind::Regular(b.to_vec()) };
    let v = vec![
        reg("good.json", b"{\"a\": [1, 2.5, \"x\"], \"b\": {\"c\": true}}\n"),
        reg("good.yaml", b"a:\n  - 1\n  - two\nb: {c: null}\n---\n- second\n"),
        reg("good.toml", b"title = \"t\"\n[owner]\nname = \"n\"\n"),
        reg("good.msgpack", b"\x82\xa1a\x01\xa1b\x92\x02\xc3"),
        reg("bad.json", b"{\"a\": [1, 2,, ]}"),
        reg("undetectable.txt", b"\x00\x01 not any format \xff"),
        reg("nullroot.json", b"null"),
        reg("noext", b"k: v\nlist: [1, 2]\n"),
        reg("empty.json", b""),
        reg("MIXED.YmL", b"x: 1\n"),
        // a file whose name is a single dash, reachable as "./-" (only the bare
        // operand "-" means standard input)
        reg("./-", b"{\"dash\": true}\n"),
        // a file name that is not valid UTF-8 (the marker stands for the byte 0xE9)
        FileSpec { name: format!("caf{}.json", NON_UTF8_MARK), kind: FileKind::Regular(b"[\"latin1 name\"]".to_vec()) },
        FileSpec { name: "pipe.json".into(), kind: FileKind::Fifo(b"[1,2,3]".to_vec()) },
        FileSpec { name: "dir".into(), kind: FileKind::Dir },
        FileSpec { name: "missing.json".into(), kind: FileKind::Missing },
    ];
    // a regular file that reports size 0 but has content ("Linux\n"); only where
    // such a file exists (otherwise the operand is simply a missing file)
    let mut v = v;
    let target = "/proc/sys/kernel/ostype";
    if std::fs::metadata(target).map_or(false, |m| m.is_file() && m.len() == 0) && std::fs::read(target).map_or(false, |b| !b.is_empty()) {
        v.push(FileSpec { name: "ostype.yaml".into(), kind: FileKind::ProcLink(target.into()) });
    }
    v
}

pub fn vocabulary() -> Vec<&'static str> {
    // leaked once: the vocabulary is static for the life of the process
    static NONUTF8: std::sync::OnceLock<&'static str> = std::sync::OnceLock::new();
    let nonutf8: &'static str = NONUTF8.get_or_init(|| Box::leak(format!("caf{}.json", NON_UTF8_MARK).into_boxed_str()));
    let mut v = vocabulary_base();
    v.push(nonutf8);
    v
}

fn vocabulary_base() -> Vec<&'static str> {
    vec![
        "-f", "-t", "-fjson", "-fj", "-f=yaml", "-fy", "-fm", "-ft", "-ftoml", "-tm", "-tmsgpack", "-t=toml", "-tt", "-ty", "-tyaml", "-tj", "json", "j", "yaml", "toml", "m", "xml", "JSON", "-fxml", "-t=", "-x",
        "--foo", "--format=json", "-h", "--help", "-V", "--version", "--", "-", "good.json", "good.yaml", "good.toml", "good.msgpack", "bad.json", "undetectable.txt", "nullroot.json", "noext", "empty.json",
        "MIXED.YmL", "pipe.json", "dir", "missing.json", "./-", "ostype.yaml",
    ]
}

fn stdin_for(i: u64) -> Vec<u8> {
    match i % 4 {
        0 => b"{\"stdin\": true}".to_vec(),
        1 => b"- from\n- stdin\n".to_vec(),
        2 => b"".to_vec(),
        _ => b"\x00garbage".to_vec(),
    }
}

pub fn run_invocation(inv: &Invocation, rec: &mut Recorder) -> Result<(), String> {
    // the same FIFO named twice would block forever on its second open
    let mut seen = vec![];
    for a in &inv.args {
        if inv.files.iter().any(|f| f.name == *a && matches!(f.kind, FileKind::Fifo(_))) {
            if seen.contains(a) {
                rec.reject();
                return Ok(());
            }
            seen.push(a.clone());
        }
    }
    let exp = expectation(inv);
    let res = execute(inv);
    let class = judge(inv, &res, &exp).map_err(|m| format!("xt {:?} [{} stdout={:?}]: {}", inv.args, inv.bin.name(), inv.out, m))?;
    let nontrivial = !inv.args.is_empty();
    rec.count(if nontrivial { Some(hash_of(&inv.to_json("x").to_string())) } else { None });
    rec.class(&format!("outcome:{}", class));
    rec.class(&format!("stdout:{:?}", inv.out));
    rec.class(&format!("argv_len:{}", inv.args.len().min(4)));
    rec.sample(|| json!({"args": inv.args, "stdout": format!("{:?}", inv.out), "bin": inv.bin.name(), "observed": res.status(), "class": class}));
    Ok(())
}

fn random_invocation() -> BoxedStrategy<Invocation> {
    let vocab = vocabulary();
    (proptest::collection::vec(proptest::sample::select(vocab), 0..8), 0u64..4, prop_oneof![4 => Just(OutKind::Pipe), 2 => Just(OutKind::File), 2 => Just(OutKind::Pty)], any::<bool>())
        .prop_map(|(args, s, out, dbg)| Invocation { args: args.into_iter().map(String::from).collect(), files: standard_files(), stdin: stdin_for(s), out, bin: if dbg { Bin::Debug } else { Bin::Release }, stdin_file_offset: None })
        .boxed()
}

impl Check for C13 {
    fn id(&self) -> &'static str {
        "C13"
    }
    fn level(&self) -> &'static str {
        "exploration"
    }
    fn rule(&self) -> String {
        "The real binaries (debug and release, hooks off) are run on argument vectors over the vocabulary {-f/-t with every name and alias attached, detached and with '='; repeats; missing values; invalid names; unknown short and long options; -h --help -V --version; '--'; '-'; existing / malformed / undetectable / unrepresentable / empty / FIFO / directory / missing paths}: ALL vectors up to length 2 (quick) or 3 (thorough) in unit 'enumerate' with stdout a pipe, plus random vectors up to length 7 with stdout a pipe, a file or a pseudo-terminal. Oracle: a reference model of the command line written from the manual (left-to-right processing; help/version first => exit 0, stdout only; invalid => exit 2, stdout empty, stderr starts with 'xt error' and carries the usage summary; otherwise exit 0 iff every input translates in the in-process library, else 1 with an 'xt error' line naming the offending input; stdout carries exactly / at least the library's bytes; MessagePack to a terminal => exit 1, nothing written). Unit 'unwritable': failing, invalid, help and version invocations with standard error (or, for help/version and early failures, standard output) on /dev/full or a closed pipe must still end with the exit status of the model, never with a signal. One evaluation = one process run; non-trivial = non-empty argv; distinct by hash of the invocation.".into()
    }
    fn assumptions(&self) -> Vec<String> {
        vec![
            "'translating nothing' on a usage error is observed as 'stdout empty and exit 2'".into(),
            "unreadable files cannot be produced when running as root; directory and missing paths stand in for open/read failures".into(),
        ]
    }
    fn needs_cli(&self) -> bool {
        true
    }
    fn units(&self, tier: Tier) -> Vec<Unit> {
        vec![Unit::enumerate("enumerate", 16), Unit::enumerate("pty", 4), Unit::enumerate("unwritable", 4), Unit::enumerate("argv0", 4), Unit::gen("random", 16, tier.pick(600, 5000))]
    }
    fn required_classes(&self, _tier: Tier) -> Vec<&'static str> {
        vec!["outcome:info", "outcome:usage", "outcome:ok", "outcome:failed", "outcome:tty_refused", "stdout:Pipe", "stdout:File", "stdout:Pty", "unwritable_stream", "argv0_not_utf8"]
    }
    fn run_unit(&self, unit: &Unit, shard: u32, seed: u64, tier: Tier, rec: &mut Recorder) {
        match unit.name {
            "enumerate" => {
                let vocab = vocabulary();
                let n = vocab.len() as u64;
                let max_len = tier.pick(2u32, 3u32);
                let mut index = 0u64;
                for len in 0..=max_len {
                    for code in 0..n.pow(len) {
                        index += 1;
                        if index % unit.shards as u64 != shard as u64 {
                            continue;
                        }
                        let mut args = vec![];
                        let mut x = code;
                        for _ in 0..len {
                            args.push(vocab[(x % n) as usize].to_string());
                            x /= n;
                        }
                        let inv = Invocation { args, files: standard_files(), stdin: stdin_for(index), out: OutKind::Pipe, bin: if index % 2 == 0 { Bin::Debug } else { Bin::Release }, stdin_file_offset: None };
                        if rec.tracing() {
                            rec.trace_case(|| inv.to_json("enumerate"));
                        }
                        if let Err(m) = run_invocation(&inv, rec) {
                            rec.fail(m, inv.to_json("enumerate"));
                            return;
                        }
                    }
                }
            }
            "pty" => {
                let vocab = ["-tm", "-tmsgpack", "-t", "m", "msgpack", "-t=m", "-tj", "-ty", "-tt", "good.json", "good.msgpack", "good.toml", "-fm", "-h", "-V", "-x", "missing.json", "-"];
                let n = vocab.len() as u64;
                let mut index = 0u64;
                for len in 0..=2u32 {
                    for code in 0..n.pow(len) {
                        index += 1;
                        if index % unit.shards as u64 != shard as u64 {
                            continue;
                        }
                        let mut args = vec![];
                        let mut x = code;
                        for _ in 0..len {
                            args.push(vocab[(x % n) as usize].to_string());
                            x /= n;
                        }
                        let inv = Invocation { args, files: standard_files(), stdin: stdin_for(index), out: OutKind::Pty, bin: if index % 2 == 0 { Bin::Debug } else { Bin::Release }, stdin_file_offset: None };
                        if let Err(m) = run_invocation(&inv, rec) {
                            rec.fail(m, inv.to_json("pty"));
                            return;
                        }
                    }
                }
            }
            "unwritable" => {
                // exit status must not depend on whether the message / help text could
                // be written: standard error on a full device or a closed pipe for
                // failing and invalid invocations, standard output on a full device or a
                // closed pipe for help and version
                use crate::cli::{run_xt_full, Scratch, StderrSpec, StdinSpec, StdoutSpec};
                let cases: Vec<(Vec<&str>, i32)> = vec![
                    (vec!["missing.json"], 1),
                    (vec!["bad.json"], 1),
                    (vec!["undetectable.txt"], 1),
                    (vec!["-ttoml", "nullroot.json"], 1),
                    (vec!["good.json", "-", "-"], 1),
                    (vec!["-ttoml", "good.json", "good.yaml"], 1),
                    (vec!["dir"], 1),
                    (vec!["-x"], 2),
                    (vec!["-f"], 2),
                    (vec!["-fxml"], 2),
                    (vec!["-tj", "-tj"], 2),
                    (vec!["--foo"], 2),
                    (vec!["-h"], 0),
                    (vec!["--help"], 0),
                    (vec!["-V"], 0),
                    (vec!["--version"], 0),
                    (vec!["good.json"], 0),
                ];
                let mut n = 0u32;
                for (args, want) in &cases {
                    for stderr in [StderrSpec::DevFull, StderrSpec::ClosedPipe, StderrSpec::Pipe] {
                        for (oi, stdout) in [StdoutSpec::Pipe, StdoutSpec::DevFull, StdoutSpec::ClosingPipe { after: 0, pipe_size: None }].into_iter().enumerate() {
                            for bin in [Bin::Debug, Bin::Release] {
                                n += 1;
                                if n % unit.shards != shard {
                                    continue;
                                }
                                // an unwritable stdout changes the outcome of a run that
                                // translates (C16); here it is only combined with help/version
                                // and with runs that fail before producing output
                                let produces_output = *want == 0 && !args[0].starts_with('-') || args.contains(&"good.json");
                                if oi > 0 && produces_output {
                                    continue;
                                }
                                let sc = Scratch::new("c13u");
                                for f in standard_files() {
                                    match &f.kind {
                                        FileKind::Regular(b) => {
                                            sc.file(&f.name, b);
                                        }
                                        FileKind::Dir => {
                                            let _ = std::fs::create_dir_all(sc.dir.join(&f.name));
                                        }
                                        _ => {}
                                    }
                                }
                                let os: Vec<std::ffi::OsString> = args.iter().map(std::ffi::OsString::from).collect();
                                let res = run_xt_full(bin, &os, &sc.dir, StdinSpec::Bytes(b"{}".to_vec()), stdout.clone(), stderr, vec![], 60);
                                let cj = json!({"unit": "unwritable", "args": args, "stderr": format!("{:?}", stderr), "stdout": format!("{:?}", stdout), "bin": bin.name(), "want": want});
                                if res.code != Some(*want) {
                                    rec.fail(
                                        format!("xt {:?} with stderr {:?} and stdout {:?} [{}]: expected exit {}, got {}", args, stderr, stdout, bin.name(), want, res.brief()),
                                        cj,
                                    );
                                    return;
                                }
                                rec.count(Some(hash_of(&cj.to_string())));
                                rec.class("unwritable_stream");
                            }
                        }
                    }
                }
            }
            "argv0" => {
                // the program may be started under any name (a symlink, exec -a): a name
                // that is not UTF-8 changes at most the text of the usage line
                use crate::cli::{run_xt_full, Scratch, StderrSpec, StdinSpec, StdoutSpec, ARGV0_OVERRIDE};
                let cases: Vec<(Vec<&str>, i32)> = vec![
                    (vec![], 0),
                    (vec!["good.json"], 0),
                    (vec!["missing.json"], 1),
                    (vec!["bad.json"], 1),
                    (vec!["-x"], 2),
                    (vec!["-f"], 2),
                    (vec!["-fxml"], 2),
                    (vec!["-txml", "good.json"], 2),
                    (vec!["--foo"], 2),
                    (vec!["-h"], 0),
                    (vec!["--help"], 0),
                    (vec!["-V"], 0),
                    (vec!["--version"], 0),
                ];
                let mut n = 0u32;
                for (args, want) in &cases {
                    for name in [&b"x\xfft"[..], &b"\xe9"[..], &b""[..], &b"a b\n"[..]] {
                        for bin in [Bin::Debug, Bin::Release] {
                            n += 1;
                            if n % unit.shards != shard {
                                continue;
                            }
                            let sc = Scratch::new("c13a");
                            for f in standard_files() {
                                if let FileKind::Regular(b) = &f.kind {
                                    sc.file(&f.name, b);
                                }
                            }
                            let os: Vec<std::ffi::OsString> = args.iter().map(std::ffi::OsString::from).collect();
                            ARGV0_OVERRIDE.with(|a| *a.borrow_mut() = Some(name.to_vec()));
                            let res = run_xt_full(bin, &os, &sc.dir, StdinSpec::Bytes(b"{}".to_vec()), StdoutSpec::Pipe, StderrSpec::Pipe, vec![], 60);
                            ARGV0_OVERRIDE.with(|a| *a.borrow_mut() = None);
                            let cj = json!({"unit": "argv0", "args": args, "argv0": hex(name), "bin": bin.name(), "want": want});
                            if res.code != Some(*want) {
                                rec.fail(format!("xt {:?} started under the name {:?} [{}]: expected exit {}, got {}", args, brief_bytes(name), bin.name(), want, res.brief()), cj);
                                return;
                            }
                            rec.count(Some(hash_of(&cj.to_string())));
                            rec.class("argv0_not_utf8");
                        }
                    }
                }
            }
            "random" => run_prop(rec, seed, unit.cases, random_invocation(), |i| i.to_json("random"), run_invocation),
            other => panic!("unknown unit {}", other),
        }
    }
    fn replay(&self, case: &J) -> Result<(), String> {
        if matches!(case["unit"].as_str(), Some("unwritable") | Some("argv0")) {
            return Err("re-run ./check C13 quick (the unwritable unit is a fixed enumeration)".into());
        }
        run_invocation(&Invocation::from_json(case).ok_or("bad invocation")?, &mut Recorder::default())
    }
}
