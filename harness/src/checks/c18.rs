//! C18 Nesting limits are clean, and the same for slice and reader input.

use serde_json::{json, Value as J};

use crate::cli::*;
use crate::runner::*;
use crate::sio::Sched;
use crate::util::*;
use crate::xtapi::*;

pub struct C18;

#[derive(Clone, Copy, Debug, PartialEq)]
pub enum Shape {
    Arrays,
    Maps,
    Alternating,
    Mixed,
    /// the nested collection sits in map-key position (MessagePack; YAML flow keys)
    KeyPosition,
    /// arrays whose innermost one is empty (no scalar at the bottom)
    HollowArrays,
    /// maps whose innermost one is empty
    HollowMaps,
    /// arrays; the outermost one first holds 1100 empty arrays and empty maps,
    /// then the nest (collections seen earlier must not use up depth)
    EmptiesFirst,
}

pub const SHAPES: [Shape; 8] = [Shape::Arrays, Shape::Maps, Shape::Alternating, Shape::Mixed, Shape::KeyPosition, Shape::HollowArrays, Shape::HollowMaps, Shape::EmptiesFirst];

impl Shape {
    pub fn name(self) -> &'static str {
        match self {
            Shape::Arrays => "arrays",
            Shape::Maps => "maps",
            Shape::Alternating => "alternating",
            Shape::Mixed => "mixed",
            Shape::KeyPosition => "key_position",
            Shape::HollowArrays => "hollow_arrays",
            Shape::HollowMaps => "hollow_maps",
            Shape::EmptiesFirst => "empties_first",
        }
    }
    pub fn from_name(s: &str) -> Option<Shape> {
        SHAPES.iter().copied().find(|x| x.name() == s)
    }
    /// is level `i` (0 = outermost) a map?
    fn is_map(self, i: usize, depth: usize) -> bool {
        match self {
            Shape::Arrays | Shape::HollowArrays | Shape::EmptiesFirst => false,
            Shape::Maps | Shape::KeyPosition | Shape::HollowMaps => true,
            Shape::Alternating => i % 2 == 0,
            Shape::Mixed => {
                let _ = depth;
                (i * 7) % 5 < 2
            }
        }
    }
}

/// A document with `depth` collections around a scalar. For TOML the root
/// table counts as the first collection.
pub fn nested(fmt: Fmt, shape: Shape, depth: usize) -> Option<Vec<u8>> {
    nested_w(fmt, shape, depth, 0)
}

/// `width` selects the MessagePack header encoding: 0 fix, 1 16-bit, 2 32-bit,
/// 3 cycling through all three (ignored for the text formats).
pub fn nested_w(fmt: Fmt, shape: Shape, depth: usize, width: u8) -> Option<Vec<u8>> {
    if depth == 0 {
        return None;
    }
    if matches!(shape, Shape::HollowArrays | Shape::HollowMaps) {
        return hollow(fmt, shape == Shape::HollowMaps, depth, width);
    }
    if shape == Shape::EmptiesFirst {
        return empties_first(fmt, depth, width);
    }
    let mut out: Vec<u8> = vec![];
    match fmt {
        Fmt::Json => {
            if shape == Shape::KeyPosition {
                return None;
            }
            for i in 0..depth {
                out.extend_from_slice(if shape.is_map(i, depth) { b"{\"k\":" } else { b"[" });
            }
            out.push(b'1');
            for i in (0..depth).rev() {
                out.push(if shape.is_map(i, depth) { b'}' } else { b']' });
            }
        }
        Fmt::Msgpack => {
            for i in 0..depth {
                let w = if width == 3 { (i % 3) as u8 } else { width };
                let map = shape == Shape::KeyPosition || shape.is_map(i, depth);
                match (map, w) {
                    (true, 0) => out.push(0x81),
                    (true, 1) => out.extend_from_slice(b"\xde\x00\x01"),
                    (true, _) => out.extend_from_slice(b"\xdf\x00\x00\x00\x01"),
                    (false, 0) => out.push(0x91),
                    (false, 1) => out.extend_from_slice(b"\xdc\x00\x01"),
                    (false, _) => out.extend_from_slice(b"\xdd\x00\x00\x00\x01"),
                }
                if map && shape != Shape::KeyPosition {
                    out.extend_from_slice(b"\xa1k"); // key; KeyPosition: the next value is the key
                }
            }
            out.push(0x01);
            if shape == Shape::KeyPosition {
                // close every map with a value
                for _ in 0..depth {
                    out.push(0xc3);
                }
            }
        }
        Fmt::Yaml => {
            // flow style keeps the text linear in the depth; the marker keeps the
            // text from also being valid JSON
            out.extend_from_slice(b"--- ");
            for i in 0..depth {
                if shape == Shape::KeyPosition {
                    out.extend_from_slice(b"{? ");
                } else if shape.is_map(i, depth) {
                    out.extend_from_slice(b"{k: ");
                } else {
                    out.push(b'[');
                }
            }
            out.push(b'1');
            for i in (0..depth).rev() {
                if shape == Shape::KeyPosition {
                    out.extend_from_slice(b" : 1}");
                } else {
                    out.push(if shape.is_map(i, depth) { b'}' } else { b']' });
                }
            }
            out.push(b'\n');
        }
        Fmt::Toml => {
            if shape == Shape::KeyPosition {
                return None;
            }
            // root table is level 0; levels 1.. are inline
            out.extend_from_slice(b"k = ");
            for i in 1..depth {
                out.extend_from_slice(if shape.is_map(i, depth) { b"{k = " } else { b"[" });
            }
            out.push(b'1');
            for i in (1..depth).rev() {
                out.push(if shape.is_map(i, depth) { b'}' } else { b']' });
            }
            out.push(b'\n');
        }
    }
    Some(out)
}

/// An array of `depth` levels whose outermost level starts with 1100 empty
/// collections.
fn empties_first(fmt: Fmt, depth: usize, width: u8) -> Option<Vec<u8>> {
    const N: usize = 1100;
    let mut out: Vec<u8> = vec![];
    match fmt {
        Fmt::Json | Fmt::Yaml | Fmt::Toml => {
            // the plain nest of the same depth, with the empties spliced in after its first '['
            let inner = nested_w(fmt, Shape::Arrays, depth, width)?;
            let at = inner.iter().position(|b| *b == b'[')?;
            out.extend_from_slice(&inner[..=at]);
            for i in 0..N {
                out.extend_from_slice(if i % 2 == 0 || fmt == Fmt::Toml { b"[]," } else { b"{}," });
            }
            if fmt == Fmt::Toml && depth == 1 {
                return None;
            }
            out.extend_from_slice(&inner[at + 1..]);
        }
        Fmt::Msgpack => {
            out.push(0xdc);
            out.extend(((N + 1) as u16).to_be_bytes());
            for i in 0..N {
                out.push(if i % 2 == 0 { 0x90 } else { 0x80 });
            }
            if depth == 1 {
                out.push(0x01);
            } else {
                out.extend(nested_w(Fmt::Msgpack, Shape::Arrays, depth - 1, width)?);
            }
        }
    }
    Some(out)
}

/// `depth` collections of one kind, the innermost one empty.
fn hollow(fmt: Fmt, map: bool, depth: usize, width: u8) -> Option<Vec<u8>> {
    let mut out: Vec<u8> = vec![];
    match fmt {
        Fmt::Json | Fmt::Yaml => {
            if fmt == Fmt::Yaml {
                out.extend_from_slice(b"--- ");
            }
            for i in 0..depth {
                let last = i + 1 == depth;
                match (map, last, fmt) {
                    (true, false, Fmt::Json) => out.extend_from_slice(b"{\"k\":"),
                    (true, false, _) => out.extend_from_slice(b"{k: "),
                    (true, true, _) => out.push(b'{'),
                    (false, _, _) => out.push(b'['),
                }
            }
            for _ in 0..depth {
                out.push(if map { b'}' } else { b']' });
            }
            if fmt == Fmt::Yaml {
                out.push(b'\n');
            }
        }
        Fmt::Msgpack => {
            for i in 0..depth {
                let last = i + 1 == depth;
                let w = if width == 3 { (i % 3) as u8 } else { width };
                let n: u8 = if last { 0 } else { 1 };
                match (map, w) {
                    (true, 0) => out.push(0x80 | n),
                    (true, 1) => out.extend_from_slice(&[0xde, 0, n]),
                    (true, _) => out.extend_from_slice(&[0xdf, 0, 0, 0, n]),
                    (false, 0) => out.push(0x90 | n),
                    (false, 1) => out.extend_from_slice(&[0xdc, 0, n]),
                    (false, _) => out.extend_from_slice(&[0xdd, 0, 0, 0, n]),
                }
                if map && !last {
                    out.extend_from_slice(b"\xa1k");
                }
            }
        }
        Fmt::Toml => {
            // the root table is level 0
            if depth == 1 {
                return Some(vec![]);
            }
            out.extend_from_slice(b"k = ");
            for i in 1..depth {
                let last = i + 1 == depth;
                match (map, last) {
                    (true, false) => out.extend_from_slice(b"{k = "),
                    (true, true) => out.push(b'{'),
                    (false, _) => out.push(b'['),
                }
            }
            for _ in 1..depth {
                out.push(if map { b'}' } else { b']' });
            }
            out.push(b'\n');
        }
    }
    Some(out)
}

pub fn probe() {
    crate::xtapi::install_panic_hook();
    for fmt in FORMATS {
        for shape in SHAPES {
            for to in FORMATS {
                for mode in [Mode::Slice, Mode::Reader(Sched::Fixed(4096))] {
                    for detect in [false, true] {
                        let mut first_err = None;
                        let mut last_ok = 0;
                        let mut flips = 0;
                        let mut prev: Option<bool> = None;
                        let mut msg = String::new();
                        for depth in 1..1100 {
                            let Some(doc) = nested(fmt, shape, depth) else { break };
                            let o = run_mode(&doc, &mode, if detect { None } else { Some(fmt) }, to);
                            let ok = o.verdict.is_ok();
                            if let Some(p) = prev {
                                if p != ok {
                                    flips += 1;
                                }
                            }
                            prev = Some(ok);
                            if ok {
                                last_ok = depth;
                            } else if first_err.is_none() {
                                first_err = Some(depth);
                                msg = o.verdict.brief().chars().take(70).collect();
                            }
                        }
                        if prev.is_some() {
                            println!("{:8} {:12} -> {:8} {:6} detect={:5} last_ok={:4} first_err={:?} flips={} {}", fmt.name(), shape.name(), to.name(), mode.class(), detect, last_ok, first_err, flips, msg);
                        }
                    }
                }
            }
        }
    }
}


pub fn nominal(fmt: Fmt) -> usize {
    match fmt {
        Fmt::Json => 128,
        Fmt::Yaml => 128,
        Fmt::Toml => 80,
        Fmt::Msgpack => 1024,
    }
}

/// Does the target accept this shape at all (depth 2)?
fn target_accepts(fmt: Fmt, shape: Shape, to: Fmt) -> bool {
    // the variants of plain nests are judged by the plain nest: a defect that makes
    // the variant fail at depth 2 must not switch the variant off
    let shape = match shape {
        Shape::HollowArrays | Shape::EmptiesFirst => Shape::Arrays,
        Shape::HollowMaps => Shape::Maps,
        other => other,
    };
    match nested(fmt, shape, 2) {
        Some(doc) => run_slice(&doc, Some(fmt), to).verdict.is_ok(),
        None => false,
    }
}

/// Far-beyond documents: linear-time shapes only (libyaml is quadratic in flow depth).
fn far_doc(fmt: Fmt, shape: Shape, depth: usize, width: u8) -> Option<Vec<u8>> {
    if fmt == Fmt::Yaml && depth > crate::corpus::LIBYAML_FLOW_DEPTH_CAP {
        // block sequences nest in linear time
        let mut out = b"--- ".to_vec();
        for _ in 0..depth {
            out.extend_from_slice(b"- ");
        }
        out.extend_from_slice(b"1\n");
        return Some(out);
    }
    nested_w(fmt, shape, depth, width)
}

#[derive(Clone, Debug)]
struct Probe {
    fmt: Fmt,
    shape: Shape,
    to: Fmt,
    mode: Mode,
    detect: bool,
    depth: usize,
    width: u8,
    /// 0 as built; 1 the document follows blank lines / comments (>= 32 bytes);
    /// 2 the innermost scalar is a string of 3 MiB
    pad: u8,
}

/// Variants of a nested document that leave its depth alone.
fn padded(doc: Vec<u8>, fmt: Fmt, shape: Shape, width: u8, pad: u8) -> Option<Vec<u8>> {
    match pad {
        0 => Some(doc),
        1 => {
            let lead: &[u8] = match fmt {
                Fmt::Json => b" \n  \n \r\n     \n   \n  \n      \n    \n",
                Fmt::Yaml => b"# one comment line\n\n# and another one\n  \n",
                Fmt::Toml => b"# one comment line\n\n# and another one\n  \n",
                Fmt::Msgpack => return None,
            };
            let mut out = lead.to_vec();
            out.extend(doc);
            Some(out)
        }
        _ => {
            // only where the scalar at the bottom is the single '1' / 0x01 of the text
            if !matches!(shape, Shape::Arrays | Shape::Maps) {
                return None;
            }
            let big = vec![b'v'; 3 << 20];
            match fmt {
                Fmt::Json | Fmt::Yaml => {
                    let at = doc.iter().rposition(|b| *b == b'1')?;
                    let mut out = doc[..at].to_vec();
                    out.push(b'"');
                    out.extend(&big);
                    out.push(b'"');
                    out.extend(&doc[at + 1..]);
                    Some(out)
                }
                Fmt::Msgpack if width == 0 && shape == Shape::Arrays => {
                    let mut out = doc[..doc.len() - 1].to_vec();
                    out.push(0xdb);
                    out.extend((big.len() as u32).to_be_bytes());
                    out.extend(&big);
                    Some(out)
                }
                _ => None,
            }
        }
    }
}

impl Probe {
    fn to_json(&self, unit: &str) -> J {
        json!({"unit": unit, "fmt": self.fmt.name(), "shape": self.shape.name(), "to": self.to.name(), "mode": self.mode.to_json(), "detect": self.detect, "depth": self.depth, "width": self.width, "pad": self.pad})
    }
    fn from_json(j: &J) -> Option<Probe> {
        Some(Probe {
            fmt: Fmt::from_name(j["fmt"].as_str()?)?,
            shape: Shape::from_name(j["shape"].as_str()?)?,
            to: Fmt::from_name(j["to"].as_str()?)?,
            mode: Mode::from_json(&j["mode"])?,
            detect: j["detect"].as_bool()?,
            depth: j["depth"].as_u64()? as usize,
            width: j["width"].as_u64().unwrap_or(0) as u8,
            pad: j["pad"].as_u64().unwrap_or(0) as u8,
        })
    }
}

/// The limit of a source format, measured on the baseline combination (all
/// arrays or all maps to MessagePack, slice, format named): the largest depth
/// that translates, scanning upwards until the first refusal.
pub fn measured_limit(fmt: Fmt) -> Result<usize, String> {
    let shape = if fmt == Fmt::Toml { Shape::Maps } else { Shape::Arrays };
    let mut last_ok = 0;
    for depth in 1..=nominal(fmt) + 64 {
        let doc = nested(fmt, shape, depth).ok_or("no document")?;
        let o = run_slice(&doc, Some(fmt), Fmt::Msgpack);
        match o.verdict {
            Verdict::Ok => {
                if last_ok + 1 != depth {
                    return Err(format!("{}: depth {} translates although depth {} was refused", fmt.name(), depth, last_ok + 1));
                }
                last_ok = depth;
            }
            Verdict::Err(_) => {}
            Verdict::Panic(p) => return Err(format!("{}: panic at depth {}: {}", fmt.name(), depth, p)),
        }
    }
    Ok(last_ok)
}

fn check_probe(p: &Probe, limit: usize) -> Result<bool, String> {
    let doc = match far_doc(p.fmt, p.shape, p.depth, p.width).and_then(|d| padded(d, p.fmt, p.shape, p.width, p.pad)) {
        Some(d) => d,
        None => return Ok(false),
    };
    let from = if p.detect { None } else { Some(p.fmt) };
    let o = run_mode(&doc, &p.mode, from, p.to);
    let expect_ok = p.depth <= limit;
    match (&o.verdict, expect_ok) {
        (Verdict::Panic(m), _) => Err(format!("panic at depth {}: {}", p.depth, m)),
        (Verdict::Ok, false) => Err(format!(
            "{} {} nested {} deep translated to {} ({}, {}), but the limit measured for {} input is {} (arrays/maps to MessagePack from a slice)",
            p.fmt.name(),
            p.shape.name(),
            p.depth,
            p.to.name(),
            p.mode.class(),
            if p.detect { "detected" } else { "named" },
            p.fmt.name(),
            limit
        )),
        (Verdict::Err(e), true) => Err(format!(
            "{} {} nested {} deep was refused for {} ({}, {}): {:?}, but the limit measured for {} input is {}",
            p.fmt.name(),
            p.shape.name(),
            p.depth,
            p.to.name(),
            p.mode.class(),
            if p.detect { "detected" } else { "named" },
            e,
            p.fmt.name(),
            limit
        )),
        _ => Ok(true),
    }
}

fn cli_probe(fmt: Fmt, shape: Shape, to: Fmt, depth: usize, limit: usize, bin: Bin, via_stdin: bool, width: u8) -> Result<(), String> {
    let doc = far_doc(fmt, shape, depth, width).ok_or("no document")?;
    let sc = Scratch::new("c18");
    let mut args: Vec<std::ffi::OsString> = vec![format!("-f{}", fmt.name()).into(), format!("-t{}", to.name()).into()];
    let res = if via_stdin {
        run_xt(bin, &args, &sc.dir, StdinSpec::Bytes(doc), StdoutSpec::Pipe, vec![])
    } else {
        let f = sc.file("deep.dat", &doc);
        args.push(f.into());
        run_xt(bin, &args, &sc.dir, StdinSpec::Null, StdoutSpec::Pipe, vec![])
    };
    let want = if depth <= limit { 0 } else { 1 };
    if res.timed_out {
        return Err(format!("[{} {}] {} {} nested {} deep -> {}: no result within 60 s", bin.name(), if via_stdin { "stdin" } else { "file" }, fmt.name(), shape.name(), depth, to.name()));
    }
    if res.code != Some(want) {
        let mut r = res.clone();
        r.stdout.truncate(60);
        return Err(format!(
            "[{} binary, {}] {} {} nested {} deep -> {}: expected exit {}, got {} (limit {})",
            bin.name(),
            if via_stdin { "stdin" } else { "file" },
            fmt.name(),
            shape.name(),
            depth,
            to.name(),
            want,
            r.brief(),
            limit
        ));
    }
    Ok(())
}

impl Check for C18 {
    fn id(&self) -> &'static str {
        "C18"
    }
    fn level(&self) -> &'static str {
        "exploration"
    }
    fn rule(&self) -> String {
        "Per source format the limit L is MEASURED on a baseline (all-arrays / all-maps documents to MessagePack from a slice, format named; every depth from 1 upwards, which also checks that acceptance is downward closed), required to be exactly 1023 for MessagePack (fixed by the statement) and within the window of the property for the others. Unit 'window' then enumerates EVERY depth in [L-6, L+6] for every nesting shape (all arrays, all maps, alternating, mixed, collection in map-key position for MessagePack and YAML; MessagePack additionally with fix, 16-bit, 32-bit and mixed header widths), every target that accepts the shape at depth 2, slice and reader, format named and detected, and requires: translate iff depth <= L. Unit 'scan' (thorough) does the same for every depth from 1 to L+40. Unit 'far' runs depths 10^3, 10^4, 10^5, 10^6 in-process (crash-isolated worker on the default 8 MiB main-thread stack). Unit 'cli' runs the window depths and the far depths through the debug and release binaries, from a file and from stdin: exit 0 iff depth <= L, else 1, never a signal. One evaluation = one (format, shape, target, mode, named/detected, depth) translation or process run; non-trivial = depth within 6 of the limit or beyond it; distinct by hash of the combination.".into()
    }
    fn assumptions(&self) -> Vec<String> {
        vec![
            "depth = number of collections around a scalar; for TOML the root table is the first collection and deeper levels are inline arrays/tables".into(),
            "YAML documents deeper than 20,000 use block sequences (libyaml's scanner is quadratic in flow depth)".into(),
            "YAML flow documents carry a '--- ' marker so that they are not simultaneously valid JSON (otherwise detection would rightly pick JSON and its limit)".into(),
        ]
    }
    fn needs_cli(&self) -> bool {
        true
    }
    fn units(&self, tier: Tier) -> Vec<Unit> {
        let mut u = vec![Unit::enumerate("window", 16), Unit::enumerate("far", 8), Unit::enumerate("cli", 16)];
        if tier == Tier::Thorough {
            u.push(Unit::enumerate("scan", 16));
        }
        u
    }
    fn required_classes(&self, _tier: Tier) -> Vec<&'static str> {
        vec!["limit:msgpack:1023", "msgpack_wide_headers", "shape:key_position", "shape:mixed", "detected", "mode:reader", "cli:debug", "cli:release", "far:1000000", "verdict:refused_beyond_limit", "verdict:accepted_within_limit"]
    }
    fn run_unit(&self, unit: &Unit, shard: u32, _seed: u64, tier: Tier, rec: &mut Recorder) {
        // limits first (every shard measures them itself: cheap and keeps shards independent)
        let mut limits = std::collections::BTreeMap::new();
        for fmt in FORMATS {
            match measured_limit(fmt) {
                Ok(l) => {
                    if fmt == Fmt::Msgpack && l != 1023 {
                        rec.fail(format!("MessagePack accepts {} collections around a scalar; the statement fixes 1023", l), json!({"unit": "limit", "fmt": fmt.name()}));
                        return;
                    }
                    if (l as i64 - nominal(fmt) as i64).abs() > 6 {
                        rec.notes.push(format!("limit of {} is {}, outside the window around {}", fmt.name(), l, nominal(fmt)));
                    }
                    if shard == 0 {
                        rec.class(&format!("limit:{}:{}", fmt.name(), l));
                    }
                    limits.insert(fmt.idx(), l);
                }
                Err(m) => {
                    rec.fail(m, json!({"unit": "limit", "fmt": fmt.name()}));
                    return;
                }
            }
        }
        let mut n = 0u64;
        let mut run = |p: Probe, unit_name: &str, rec: &mut Recorder| -> bool {
            let limit = limits[&p.fmt.idx()];
            if rec.tracing() {
                rec.trace_case(|| p.to_json(unit_name));
            }
            match check_probe(&p, limit) {
                Ok(false) => true,
                Ok(true) => {
                    let near = p.depth + 6 >= limit;
                    rec.count(if near { Some(hash_of(&p.to_json("x").to_string())) } else { None });
                    rec.class(&format!("shape:{}", p.shape.name()));
                    rec.class(if p.detect { "detected" } else { "named" });
                    rec.class(if matches!(p.mode, Mode::Slice) { "mode:slice" } else { "mode:reader" });
                    rec.class(if p.depth <= limit { "verdict:accepted_within_limit" } else { "verdict:refused_beyond_limit" });
                    rec.sample(|| p.to_json(unit_name));
                    true
                }
                Err(m) => {
                    rec.fail(m, p.to_json(unit_name));
                    false
                }
            }
        };
        match unit.name {
            "window" | "scan" => {
                for fmt in FORMATS {
                    let limit = limits[&fmt.idx()];
                    for shape in SHAPES {
                        if nested(fmt, shape, 2).is_none() {
                            continue;
                        }
                        for to in FORMATS {
                            if !target_accepts(fmt, shape, to) {
                                continue;
                            }
                            let depths: Vec<usize> = if unit.name == "window" { (limit.saturating_sub(6).max(1)..=limit + 6).collect() } else { (1..=limit + 40).collect() };
                            for depth in depths {
                                for (mi, mode) in [Mode::Slice, Mode::Reader(Sched::Fixed(4096)), Mode::Reader(Sched::Fixed(1))].into_iter().enumerate() {
                                    if mi == 2 && unit.name == "scan" {
                                        continue;
                                    }
                                    for detect in [false, true] {
                                        let widths: &[u8] = if fmt == Fmt::Msgpack { &[0, 1, 2, 3] } else { &[0] };
                                        for &width in widths {
                                            n += 1;
                                            if n % unit.shards as u64 != shard as u64 {
                                                continue;
                                            }
                                            if width > 0 {
                                                rec.class("msgpack_wide_headers");
                                            }
                                            if !run(Probe { fmt, shape, to, mode: mode.clone(), detect, depth, width, pad: 0 }, unit.name, rec) {
                                                return;
                                            }
                                            // the same document after blank lines / comments, and (next
                                            // to the limit, one target) around a 3 MiB scalar
                                            if unit.name == "window" && fmt != Fmt::Msgpack && mi < 2 {
                                                rec.class("padded:leading_blank_or_comment");
                                                if !run(Probe { fmt, shape, to, mode: mode.clone(), detect, depth, width, pad: 1 }, unit.name, rec) {
                                                    return;
                                                }
                                            }
                                            // (a TOML reader of 2 MiB or more is outside detection by design)
                                            if unit.name == "window" && to == Fmt::Json && mi < 2 && depth + 1 >= limit && depth <= limit + 1 && fmt != Fmt::Toml {
                                                rec.class("padded:huge_scalar");
                                                if !run(Probe { fmt, shape, to, mode: if mi == 0 { Mode::Slice } else { Mode::Reader(Sched::Fixed(65536)) }, detect, depth, width, pad: 2 }, unit.name, rec) {
                                                    return;
                                                }
                                            }
                                        }
                                    }
                                }
                            }
                        }
                    }
                }
            }
            "far" => {
                for fmt in FORMATS {
                    for shape in SHAPES {
                        if nested(fmt, shape, 2).is_none() {
                            continue;
                        }
                        for depth in [1_000usize, 10_000, 100_000, 1_000_000] {
                            if depth <= limits[&fmt.idx()] {
                                continue;
                            }
                            for to in FORMATS {
                                if !target_accepts(fmt, shape, to) {
                                    continue;
                                }
                                n += 1;
                                if n % unit.shards as u64 != shard as u64 {
                                    continue;
                                }
                                let (mode, detect) = match n % 3 {
                                    0 => (Mode::Slice, false),
                                    1 => (Mode::Reader(Sched::Fixed(8192)), false),
                                    // detection hands flow-nested text to libyaml: keep it below the quadratic cap
                                    _ => (Mode::Slice, depth <= crate::corpus::LIBYAML_FLOW_DEPTH_CAP && fmt != Fmt::Toml),
                                };
                                let widths: &[u8] = if fmt == Fmt::Msgpack { &[0, 1, 2] } else { &[0] };
                                for &width in widths {
                                    if !run(Probe { fmt, shape, to, mode: mode.clone(), detect, depth, width, pad: 0 }, "far", rec) {
                                        return;
                                    }
                                }
                                rec.class(&format!("far:{}", depth));
                            }
                        }
                    }
                }
            }
            "cli" => {
                let quick = tier == Tier::Quick;
                for fmt in FORMATS {
                    let limit = limits[&fmt.idx()];
                    for shape in SHAPES {
                        if nested(fmt, shape, 2).is_none() {
                            continue;
                        }
                        for to in FORMATS {
                            if !target_accepts(fmt, shape, to) {
                                continue;
                            }
                            let mut depths: Vec<usize> = if quick { vec![limit - 1, limit, limit + 1, limit + 2] } else { (limit - 6..=limit + 6).collect() };
                            depths.extend([1_000usize, 10_000, 100_000, 1_000_000].into_iter().filter(|d| *d > limit));
                            for depth in depths {
                                for bin in [Bin::Debug, Bin::Release] {
                                    for via_stdin in [false, true] {
                                        n += 1;
                                        if n % unit.shards as u64 != shard as u64 {
                                            continue;
                                        }
                                        if depth >= 100_000 && quick && (n / unit.shards as u64) % 2 == 0 {
                                            continue;
                                        }
                                        let width = if fmt == Fmt::Msgpack { (n % 3) as u8 } else { 0 };
                                        let cj = json!({"unit": "cli", "fmt": fmt.name(), "shape": shape.name(), "to": to.name(), "depth": depth, "bin": bin.name(), "stdin": via_stdin, "width": width});
                                        if let Err(m) = cli_probe(fmt, shape, to, depth, limit, bin, via_stdin, width) {
                                            rec.fail(m, cj);
                                            return;
                                        }
                                        rec.count(Some(hash_of(&cj.to_string())));
                                        rec.class(&format!("cli:{}", bin.name()));
                                        rec.class(if depth <= limit { "verdict:accepted_within_limit" } else { "verdict:refused_beyond_limit" });
                                        if depth >= 1000 && depth > limit {
                                            rec.class(&format!("far:{}", depth));
                                        }
                                        rec.sample(|| cj.clone());
                                    }
                                }
                            }
                        }
                    }
                }
            }
            other => panic!("unknown unit {}", other),
        }
    }
    fn replay(&self, case: &J) -> Result<(), String> {
        let fmt = Fmt::from_name(case["fmt"].as_str().ok_or("no fmt")?).ok_or("bad fmt")?;
        if case["unit"].as_str() == Some("limit") {
            return match measured_limit(fmt) {
                Ok(1023) if fmt == Fmt::Msgpack => Ok(()),
                Ok(l) if fmt != Fmt::Msgpack => {
                    let _ = l;
                    Ok(())
                }
                Ok(l) => Err(format!("MessagePack limit is {}", l)),
                Err(m) => Err(m),
            };
        }
        let limit = measured_limit(fmt)?;
        if case["unit"].as_str() == Some("cli") {
            return cli_probe(
                fmt,
                Shape::from_name(case["shape"].as_str().ok_or("no shape")?).ok_or("bad shape")?,
                Fmt::from_name(case["to"].as_str().ok_or("no to")?).ok_or("bad to")?,
                case["depth"].as_u64().ok_or("no depth")? as usize,
                limit,
                Bin::from_name(case["bin"].as_str().unwrap_or("release")).ok_or("bad bin")?,
                case["stdin"].as_bool().unwrap_or(false),
                case["width"].as_u64().unwrap_or(0) as u8,
            );
        }
        check_probe(&Probe::from_json(case).ok_or("bad probe")?, limit).map(|_| ())
    }
}
