//! C05 Streaming translation: bounded lag and bounded memory.

use std::cell::RefCell;
use std::io::{self, Read, Write};
use std::rc::Rc;

use proptest::prelude::*;
use serde_json::{json, Value as J};

use crate::model::*;
use crate::runner::*;
use crate::util::*;
use crate::xtapi::*;

pub struct C05;

// ---------------------------------------------------------------------------
// Counting allocator (installed for the whole harness binary in lib.rs)

pub mod alloc_count {
    use std::alloc::{GlobalAlloc, Layout, System};
    use std::sync::atomic::{AtomicUsize, Ordering};

    pub static LIVE: AtomicUsize = AtomicUsize::new(0);
    /// When non-zero, every fresh allocation (and the grown part of a reallocation)
    /// is filled with this byte: results that depend on the contents of fresh heap
    /// memory then depend on the byte.
    pub static FILL: std::sync::atomic::AtomicU8 = std::sync::atomic::AtomicU8::new(0);
    pub static PEAK: AtomicUsize = AtomicUsize::new(0);

    pub struct Counting;

    unsafe impl GlobalAlloc for Counting {
        unsafe fn alloc(&self, layout: Layout) -> *mut u8 {
            let p = System.alloc(layout);
            if !p.is_null() {
                let fill = FILL.load(Ordering::Relaxed);
                if fill != 0 {
                    std::ptr::write_bytes(p, fill, layout.size());
                }
                let live = LIVE.fetch_add(layout.size(), Ordering::Relaxed) + layout.size();
                PEAK.fetch_max(live, Ordering::Relaxed);
            }
            p
        }
        unsafe fn dealloc(&self, ptr: *mut u8, layout: Layout) {
            System.dealloc(ptr, layout);
            LIVE.fetch_sub(layout.size(), Ordering::Relaxed);
        }
        unsafe fn realloc(&self, ptr: *mut u8, layout: Layout, new_size: usize) -> *mut u8 {
            let p = System.realloc(ptr, layout, new_size);
            if !p.is_null() {
                let fill = FILL.load(Ordering::Relaxed);
                if fill != 0 && new_size > layout.size() {
                    std::ptr::write_bytes(p.add(layout.size()), fill, new_size - layout.size());
                }
                if new_size >= layout.size() {
                    let live = LIVE.fetch_add(new_size - layout.size(), Ordering::Relaxed) + (new_size - layout.size());
                    PEAK.fetch_max(live, Ordering::Relaxed);
                } else {
                    LIVE.fetch_sub(layout.size() - new_size, Ordering::Relaxed);
                }
            }
            p
        }
    }

    /// Resets the peak to the current level and returns that level.
    pub fn mark() -> usize {
        let live = LIVE.load(Ordering::Relaxed);
        PEAK.store(live, Ordering::Relaxed);
        live
    }
    pub fn peak() -> usize {
        PEAK.load(Ordering::Relaxed)
    }
}

// ---------------------------------------------------------------------------
// Lazily generated streams

#[derive(Clone, Debug)]
pub struct StreamSpec {
    pub a: Fmt,
    pub to: Fmt,
    pub detect: bool,
    pub n: usize,
    /// approximate document size in bytes (padding string length)
    pub doc_size: usize,
    /// 0: one document per read; 1: several (k) documents per read; 2: a fraction (bytes) per read
    pub packet_kind: u8,
    pub packet_param: usize,
    /// bytes of whitespace (blank lines, keep-alive padding) in front of the first
    /// document; they belong to document 1 (JSON and YAML sources only)
    pub lead: usize,
}

/// Whitespace in front of the first document: JSON's four whitespace bytes for a JSON
/// stream, line breaks for a YAML stream; nothing for MessagePack.
fn lead_bytes(a: Fmt, lead: usize) -> Vec<u8> {
    match a {
        Fmt::Json => (0..lead).map(|i| b"\n \n\t\r\n\n "[i % 8]).collect(),
        Fmt::Yaml => vec![b'\n'; lead],
        _ => vec![],
    }
}

impl StreamSpec {
    fn to_json(&self) -> J {
        json!({"unit": "stream", "a": self.a.name(), "to": self.to.name(), "detect": self.detect, "n": self.n, "doc_size": self.doc_size,
               "packet_kind": self.packet_kind, "packet_param": self.packet_param, "lead": self.lead})
    }
    fn from_json(j: &J) -> Option<StreamSpec> {
        Some(StreamSpec {
            a: Fmt::from_name(j["a"].as_str()?)?,
            to: Fmt::from_name(j["to"].as_str()?)?,
            detect: j["detect"].as_bool()?,
            n: j["n"].as_u64()? as usize,
            doc_size: j["doc_size"].as_u64()? as usize,
            packet_kind: j["packet_kind"].as_u64()? as u8,
            packet_param: j["packet_param"].as_u64()? as usize,
            lead: j["lead"].as_u64().unwrap_or(0) as usize,
        })
    }
}

/// The i-th document of a stream: a small map with a fixed-width counter and a
/// padding string, so that every document of a stream has the same size.
fn doc_bytes(a: Fmt, i: usize, doc_size: usize, variant: usize) -> Vec<u8> {
    let pad = "p".repeat(doc_size);
    let id = format!("{:09}", i);
    // variants 4 and 5: the smallest documents there are (10-16 bytes: several fit
    // into any look-ahead an implementation might take), and for YAML variant 5
    // documents whose last byte is not ASCII (the line break belongs to the next one)
    // variant 6 (YAML): the stream starts with a UTF-8 byte order mark (first
    // document a marker-less flow sequence: libyaml takes "BOM ---" for a scalar)
    if variant == 6 && a == Fmt::Yaml {
        return format!("{}[item{}, k{}]\n", if i == 0 { "\u{feff}" } else { "---\n" }, id, pad.len() % 7).into_bytes();
    }
    if variant >= 4 {
        return match a {
            // (one-element sequences: detection only recognises collections)
            Fmt::Json => format!("[\"{}\"]\n", id).into_bytes(),
            Fmt::Msgpack => crate::wr_msgpack::write_doc(&Val::Seq(vec![Val::Str(id)]), &Style::canonical()),
            Fmt::Yaml if variant == 4 => format!("--- [\"{}\"]\n", id).into_bytes(),
            Fmt::Yaml => format!("{}--- [\"{}\"] #\u{e9}", if i == 0 { "" } else { "\n" }, id).into_bytes(),
            Fmt::Toml => unreachable!(),
        };
    }
    match a {
        Fmt::Json => match variant % 2 {
            0 => format!("{{\"id\":\"{}\",\"pad\":\"{}\",\"n\":[1,2.5,true,null]}}\n", id, pad).into_bytes(),
            _ => format!("[\"{}\", \"{}\", {{\"k\": 1}}] ", id, pad).into_bytes(),
        },
        Fmt::Yaml => match variant % 4 {
            // every document carries its own directives (and must end with '...')
            3 => format!("%YAML 1.2\n%TAG !e! tag:example.com,2000:app/\n---\nid: \"{}\"\npad: {}\nn: [1, 2.5, true, null]\n...\n", id, if pad.is_empty() { "\"\"".to_string() } else { pad }).into_bytes(),
            0 => format!("---\nid: \"{}\"\npad: {}\nn: [1, 2.5, true, null]\n", id, if pad.is_empty() { "\"\"".to_string() } else { pad }).into_bytes(),
            1 => format!("---\n- \"{}\"\n- \"{}\"\n- k: 1\n...\n", id, pad).into_bytes(),
            // flow sequences; the stream starts with '[' and no marker (not valid JSON: plain scalars)
            _ => format!("{}[item{}, {}, {{k: 1}}]\n", if i == 0 { "" } else { "---\n" }, id, if pad.is_empty() { "x".to_string() } else { pad }).into_bytes(),
        },
        Fmt::Msgpack => {
            let v = Val::Map(vec![(Val::s("id"), Val::Str(id)), (Val::s("pad"), Val::Str(pad)), (Val::s("n"), Val::Seq(vec![Val::Int(1), Val::Float(2.5), Val::Bool(true), Val::Null]))]);
            crate::wr_msgpack::write_doc(&v, &Style::canonical())
        }
        Fmt::Toml => unreachable!(),
    }
}

#[derive(Default)]
pub struct Log {
    pub written: u64,
    pub reads: u64,
    pub max_lag_docs: i64,
    pub violation: Option<String>,
    pub delivered_docs_at_end: usize,
}

struct LazyReader {
    spec: StreamSpec,
    variant: usize,
    next_doc: usize,
    pending: Vec<u8>,
    pending_pos: usize,
    /// bytes delivered so far, and end offsets of generated documents not yet fully delivered
    delivered: u64,
    generated_end: u64,
    ends: std::collections::VecDeque<u64>,
    docs_delivered: usize,
    per_doc_out: u64,
    log: Rc<RefCell<Log>>,
}

impl LazyReader {
    fn fill_one(&mut self) -> bool {
        if self.next_doc >= self.spec.n {
            return false;
        }
        let mut b = doc_bytes(self.spec.a, self.next_doc, self.spec.doc_size, self.variant);
        if self.next_doc == 0 && self.spec.lead > 0 && self.variant != 6 {
            let mut l = lead_bytes(self.spec.a, self.spec.lead);
            l.extend(b);
            b = l;
        }
        self.next_doc += 1;
        self.generated_end += b.len() as u64;
        self.ends.push_back(self.generated_end);
        if self.pending_pos == self.pending.len() {
            self.pending = b;
            self.pending_pos = 0;
        } else {
            self.pending.drain(..self.pending_pos);
            self.pending_pos = 0;
            self.pending.extend(b);
        }
        true
    }
}

impl Read for LazyReader {
    fn read(&mut self, buf: &mut [u8]) -> io::Result<usize> {
        // observation point: D documents were completely delivered before this call
        {
            let mut log = self.log.borrow_mut();
            log.reads += 1;
            let d = self.docs_delivered as i64;
            let done_docs = if self.per_doc_out == 0 { 0 } else { (log.written / self.per_doc_out) as i64 };
            let lag = d - done_docs;
            if lag > log.max_lag_docs {
                log.max_lag_docs = lag;
            }
            // translation of documents 1..D-2 must be complete
            if d - 2 > done_docs && log.violation.is_none() {
                log.violation = Some(format!(
                    "read call #{}: {} documents were completely delivered, but only {} bytes were written (= {} complete translations of {} bytes each); documents up to #{} must be translated by now",
                    log.reads,
                    d,
                    log.written,
                    done_docs,
                    self.per_doc_out,
                    d - 2
                ));
            }
        }
        if buf.is_empty() {
            return Ok(0);
        }
        // how much may this read deliver?
        let budget: usize = match self.spec.packet_kind {
            0 => {
                // up to the end of the next undelivered document
                if self.ends.is_empty() && !self.fill_one() {
                    0
                } else {
                    (self.ends[0] - self.delivered) as usize
                }
            }
            1 => {
                let k = self.spec.packet_param.max(1);
                while self.ends.len() < k && self.fill_one() {}
                match self.ends.get(k - 1).or_else(|| self.ends.back()) {
                    Some(e) => (*e - self.delivered) as usize,
                    None => 0,
                }
            }
            _ => self.spec.packet_param.max(1),
        };
        while self.pending.len() - self.pending_pos < budget.min(buf.len()) && self.fill_one() {}
        let avail = self.pending.len() - self.pending_pos;
        let n = budget.min(buf.len()).min(avail);
        if n == 0 {
            self.log.borrow_mut().delivered_docs_at_end = self.docs_delivered;
            return Ok(0);
        }
        buf[..n].copy_from_slice(&self.pending[self.pending_pos..self.pending_pos + n]);
        self.pending_pos += n;
        self.delivered += n as u64;
        while let Some(e) = self.ends.front() {
            if *e <= self.delivered {
                self.ends.pop_front();
                self.docs_delivered += 1;
            } else {
                break;
            }
        }
        Ok(n)
    }
}

struct CountingWriter(Rc<RefCell<Log>>);

impl Write for CountingWriter {
    fn write(&mut self, buf: &[u8]) -> io::Result<usize> {
        self.0.borrow_mut().written += buf.len() as u64;
        Ok(buf.len())
    }
    fn flush(&mut self) -> io::Result<()> {
        Ok(())
    }
}

pub struct StreamResult {
    pub verdict: Verdict,
    pub log: Log,
    pub peak_extra: usize,
    pub per_doc_out: u64,
    pub doc_len: usize,
}

pub fn run_stream(spec: &StreamSpec, variant: usize) -> Result<StreamResult, String> {
    // size of one document's translation (the "document alone" oracle, C03)
    let d0 = doc_bytes(spec.a, 0, spec.doc_size, variant);
    let alone = run_slice(&d0, Some(spec.a), spec.to);
    if !alone.verdict.is_ok() {
        return Err(format!("a single stream document does not translate: {}", alone.verdict.brief()));
    }
    let d1 = doc_bytes(spec.a, 123456, spec.doc_size, variant);
    let alone1 = run_slice(&d1, Some(spec.a), spec.to);
    if alone1.out.len() != alone.out.len() {
        return Err("harness: stream documents do not have a constant translation size".into());
    }
    let per_doc_out = alone.out.len() as u64;
    let log = Rc::new(RefCell::new(Log::default()));
    let reader = LazyReader {
        spec: spec.clone(),
        variant,
        next_doc: 0,
        pending: vec![],
        pending_pos: 0,
        delivered: 0,
        generated_end: 0,
        ends: Default::default(),
        docs_delivered: 0,
        per_doc_out,
        log: log.clone(),
    };
    let writer = CountingWriter(log.clone());
    let from = if spec.detect { None } else { Some(spec.a.xt()) };
    let base = alloc_count::mark();
    let verdict = guarded(|| xt::translate_reader(reader, from, spec.to.xt(), writer));
    let peak = alloc_count::peak();
    let log = Rc::try_unwrap(log).map_err(|_| "log still shared".to_string())?.into_inner();
    Ok(StreamResult { verdict, log, peak_extra: peak.saturating_sub(base), per_doc_out, doc_len: d0.len() })
}

pub fn check_stream(spec: &StreamSpec, rec: &mut Recorder) -> Result<(), String> {
    let variant = spec.n % 7;
    let r = run_stream(spec, variant)?;
    if spec.a == Fmt::Yaml && variant == 6 {
        rec.class("yaml_stream_with_utf8_bom");
    }
    if variant >= 4 {
        rec.class("tiny_documents");
    }
    if spec.a == Fmt::Yaml && variant == 5 {
        rec.class("yaml_packets_end_in_non_ascii_byte");
    }
    if spec.a == Fmt::Yaml && variant == 3 {
        rec.class("yaml_documents_with_directives");
    }
    if spec.a == Fmt::Yaml && variant == 2 {
        rec.class("yaml_flow_first_document");
    }
    if !r.verdict.is_ok() {
        return Err(format!("a valid {} stream of {} documents failed to translate: {}", spec.a.name(), spec.n, r.verdict.brief()));
    }
    if r.log.written != r.per_doc_out * spec.n as u64 {
        return Err(format!("the stream's output has {} bytes, expected {} x {}", r.log.written, spec.n, r.per_doc_out));
    }
    if let Some(v) = &r.log.violation {
        return Err(format!("lag: {}", v));
    }
    // memory: proportional to the largest document plus a constant
    let bound = 2 * 1024 * 1024 + 64 * r.doc_len;
    let total_in = r.doc_len * spec.n;
    let memory_checked = total_in >= 10 * bound;
    if memory_checked {
        if r.peak_extra > bound {
            return Err(format!(
                "memory: peak live heap during the call was {} bytes for a stream of {} documents of {} bytes ({} bytes in total); bound 2 MiB + 64 x document = {}",
                r.peak_extra, spec.n, r.doc_len, total_in, bound
            ));
        }
        rec.class("memory_bound_checked");
    }
    let docs_per_8k = 8192 / r.doc_len.max(1);
    let nontrivial = spec.n >= 50 && (docs_per_8k >= 2 || r.doc_len > 16384);
    rec.count(if nontrivial { Some(hash_of(&spec.to_json().to_string())) } else { None });
    rec.class(&format!("pair:{}->{}", spec.a.name(), spec.to.name()));
    rec.class(if spec.detect { "detected" } else { "explicit" });
    if spec.lead >= 1000 && variant != 6 && spec.a != Fmt::Msgpack {
        rec.class(if spec.detect { "long_leading_whitespace:detected" } else { "long_leading_whitespace:explicit" });
    }
    rec.class(["packet:one_document_per_read", "packet:several_documents_per_read", "packet:fraction_of_a_document"][spec.packet_kind.min(2) as usize]);
    rec.class(&format!("max_lag_docs:{}", r.log.max_lag_docs.min(3)));
    rec.class(if r.doc_len > 16384 { "doc:large" } else if docs_per_8k >= 2 { "doc:small" } else { "doc:medium" });
    rec.class_n("documents_streamed", spec.n as u64);
    rec.class_n("bytes_streamed", total_in as u64);
    rec.sample(|| json!({"spec": spec.to_json(), "reads": r.log.reads, "max_lag_docs": r.log.max_lag_docs, "peak_heap": r.peak_extra, "doc_len": r.doc_len, "memory_checked": memory_checked}));
    Ok(())
}

fn spec_strategy(tier: Tier) -> BoxedStrategy<StreamSpec> {
    let big = tier == Tier::Thorough;
    (
        prop_oneof![Just(Fmt::Json), Just(Fmt::Msgpack), Just(Fmt::Yaml)],
        prop_oneof![Just(Fmt::Json), Just(Fmt::Msgpack), Just(Fmt::Yaml)],
        any::<bool>(),
        prop_oneof![
            4 => (0usize..200).boxed(),
            2 => (200usize..9000).boxed(),
            1 => if big { (9000usize..300_000).boxed() } else { (9000usize..40_000).boxed() },
        ],
        0u8..3,
        any::<u16>(),
        any::<u16>(),
        prop_oneof![3 => Just(0usize).boxed(), 1 => (1usize..64).boxed(), 2 => (1000usize..20_000).boxed()],
    )
        .prop_map(move |(a, to, detect, doc_size, packet_kind, p, nsel, lead)| {
            // stream length: tens .. hundreds of thousands, bounded by a byte budget
            let budget: usize = if big { 96 << 20 } else { 24 << 20 };
            let max_n = (budget / (doc_size + 60)).max(30).min(if big { 300_000 } else { 120_000 });
            let n = match nsel % 4 {
                0 => 30 + (nsel as usize % 100),
                1 => max_n / 10,
                _ => max_n,
            }
            .max(10);
            let packet_param = match packet_kind {
                1 => 2 + (p as usize % 40),
                2 => 1 + (p as usize % (doc_size + 50)),
                _ => 0,
            };
            let lead = if a == Fmt::Msgpack { 0 } else { lead };
            StreamSpec { a, to, detect, n, doc_size, packet_kind, packet_param, lead }
        })
        .boxed()
}

impl Check for C05 {
    fn id(&self) -> &'static str {
        "C05"
    }
    fn level(&self) -> &'static str {
        "exploration"
    }
    fn rule(&self) -> String {
        "The harness owns the schedule: a reader GENERATES the stream lazily (N documents from tens to hundreds of thousands, document size from ~50 bytes to tens/hundreds of KiB, JSON / MessagePack / YAML, format named or detected) and delivers it under a drawn packetisation (one document per read, several per read, a fraction of a document per read; in front of the first JSON or YAML document 0, 1..63 or 1000..19999 bytes of whitespace - blank keep-alive lines - which count as part of document 1); at every read call it records D = number of documents completely delivered before the call and looks at the byte count the output writer has received. Lag oracle (the statement): at every read call the writer holds at least the complete translations of documents 1..D-2 (per-document translation size from translating one document alone). Memory oracle: a counting global allocator measures peak live heap during the call minus the level at entry; for streams whose total size is >= 10x the bound it must stay <= 2 MiB + 64 x document size; unit 'growth' also requires peak(10N) <= 1.5 x peak(N) + 64 KiB. One evaluation = one whole stream. Non-trivial = N >= 50 and (>= 2 documents per 8 KiB or a document > 16 KiB); distinct by hash of the stream parameters.".into()
    }
    fn assumptions(&self) -> Vec<String> {
        vec![
            "the memory bounds are deliberately loose: they catch slurping-class regressions, not small leaks".into(),
            "peak heap is measured process-wide in a single-threaded worker (the watchdog thread does not allocate while a case runs)".into(),
        ]
    }
    fn units(&self, tier: Tier) -> Vec<Unit> {
        vec![Unit::gen("streams", 16, tier.pick(40, 300)), Unit::enumerate("growth", 9)]
    }
    fn required_classes(&self, _tier: Tier) -> Vec<&'static str> {
        vec!["memory_bound_checked", "detected", "explicit", "packet:one_document_per_read", "packet:several_documents_per_read", "packet:fraction_of_a_document", "pair:json->yaml", "pair:yaml->json", "pair:msgpack->msgpack", "pair:yaml->yaml", "doc:small", "doc:large", "growth_checked", "yaml_flow_first_document", "yaml_documents_with_directives", "tiny_documents", "yaml_packets_end_in_non_ascii_byte", "yaml_stream_with_utf8_bom", "long_leading_whitespace:detected", "long_leading_whitespace:explicit"]
    }
    fn run_unit(&self, unit: &Unit, shard: u32, seed: u64, tier: Tier, rec: &mut Recorder) {
        match unit.name {
            "streams" => run_prop(rec, seed, unit.cases, spec_strategy(tier), |s| s.to_json(), check_stream),
            "growth" => {
                // peak(10 N) <= 1.5 peak(N) + 64 KiB, for every source format, explicit and detected
                let a = [Fmt::Json, Fmt::Msgpack, Fmt::Yaml][shard as usize % 3];
                let to = [Fmt::Yaml, Fmt::Json, Fmt::Msgpack][(shard as usize / 3) % 3];
                for detect in [false, true] {
                    for (doc_size, n) in [(40usize, tier.pick(20_000, 30_000)), (3000, tier.pick(800, 3000))] {
                        let small = StreamSpec { a, to, detect, n, doc_size, packet_kind: 1, packet_param: 7, lead: 0 };
                        let large = StreamSpec { n: n * 10, ..small.clone() };
                        let cj = json!({"unit": "growth", "small": small.to_json(), "large": large.to_json()});
                        // YAML sources: plain documents and documents with directives
                        let variant = if a == Fmt::Yaml && doc_size == 40 { 3 } else { 0 };
                        let r1 = match run_stream(&small, variant) {
                            Ok(r) => r,
                            Err(m) => {
                                rec.fail(m, cj);
                                return;
                            }
                        };
                        let r2 = match run_stream(&large, variant) {
                            Ok(r) => r,
                            Err(m) => {
                                rec.fail(m, cj);
                                return;
                            }
                        };
                        if !r1.verdict.is_ok() || !r2.verdict.is_ok() {
                            rec.fail(format!("stream failed: {} / {}", r1.verdict.brief(), r2.verdict.brief()), cj);
                            return;
                        }
                        for r in [&r1, &r2] {
                            if let Some(v) = &r.log.violation {
                                rec.fail(format!("lag: {}", v), cj);
                                return;
                            }
                        }
                        if r2.peak_extra as f64 > 1.5 * r1.peak_extra as f64 + 65536.0 {
                            rec.fail(
                                format!("memory grows with the length of the stream: peak {} bytes for {} documents, {} bytes for {} documents of the same size", r1.peak_extra, small.n, r2.peak_extra, large.n),
                                cj,
                            );
                            return;
                        }
                        rec.count(Some(hash_of(&cj.to_string())));
                        rec.class("growth_checked");
                        rec.class(&format!("pair:{}->{}", a.name(), to.name()));
                        rec.class(if detect { "detected" } else { "explicit" });
                        rec.sample(|| json!({"growth": {"n": small.n, "peak": r1.peak_extra, "n10": large.n, "peak10": r2.peak_extra, "a": a.name(), "to": to.name(), "detect": detect}}));
                    }
                }
            }
            other => panic!("unknown unit {}", other),
        }
    }
    fn replay(&self, case: &J) -> Result<(), String> {
        let mut rec = Recorder::default();
        if case["unit"].as_str() == Some("growth") {
            let small = StreamSpec::from_json(&case["small"]).ok_or("bad spec")?;
            let large = StreamSpec::from_json(&case["large"]).ok_or("bad spec")?;
            let r1 = run_stream(&small, 0)?;
            let r2 = run_stream(&large, 0)?;
            if let Some(v) = r1.log.violation.or(r2.log.violation) {
                return Err(format!("lag: {}", v));
            }
            if r2.peak_extra as f64 > 1.5 * r1.peak_extra as f64 + 65536.0 {
                return Err(format!("memory grows with the length of the stream: {} vs {}", r1.peak_extra, r2.peak_extra));
            }
            return Ok(());
        }
        check_stream(&StreamSpec::from_json(case).ok_or("bad spec")?, &mut rec)
    }
    fn watchdog_secs(&self) -> u64 {
        900
    }
}
