//! C10 xt recognises its own output without -f.

use proptest::prelude::*;
use serde_json::{json, Value as J};

use crate::checks::c01::fmt_strategy;
use crate::checks::c09::{reader_level_error, yaml_reader_level_defect};
use crate::model::*;
use crate::oracle::*;
use crate::runner::*;
use crate::util::*;
use crate::xtapi::*;

pub struct C10;

#[derive(Clone, Debug)]
pub struct Case {
    pub docs: Vec<Val>,
    pub a: Fmt,
    pub f: Fmt,
    pub style: Style,
    pub mode: Mode,
}

impl Case {
    fn to_json(&self, unit: &str) -> J {
        json!({"unit": unit, "docs": self.docs.iter().map(Val::to_json).collect::<Vec<_>>(), "a": self.a.name(), "f": self.f.name(),
               "style": self.style.to_json(), "mode": self.mode.to_json()})
    }
    fn from_json(j: &J) -> Option<Case> {
        Some(Case {
            docs: j["docs"].as_array()?.iter().map(Val::from_json).collect::<Option<Vec<_>>>()?,
            a: Fmt::from_name(j["a"].as_str()?)?,
            f: Fmt::from_name(j["f"].as_str()?)?,
            style: Style::from_json(&j["style"])?,
            mode: Mode::from_json(&j["mode"])?,
        })
    }
}

/// Keys that stress detection: empty, numeric-looking, quoted, non-ASCII,
/// starting with bytes 0x80..0xDF once encoded.
fn first_key() -> BoxedStrategy<String> {
    prop_oneof![
        3 => string_strategy(),
        1 => Just("".to_string()),
        1 => proptest::sample::select(vec!["1", "-1", "1.5", "true", "null", "\"q\"", "'s'", "a b", "a: b", "- a", "[x]", "{y}", "#c", "é", "\u{80}", "\u{700}x", "\u{7ff}", "ܐ", "\u{feff}", "---", "..."]).prop_map(String::from),
        1 => (0x80u32..0x800).prop_filter_map("scalar", char::from_u32).prop_map(|c| format!("{}k", c)),
    ]
    .boxed()
}

fn collection_doc() -> BoxedStrategy<Val> {
    prop_oneof![
        2 => doc_strategy(Shape::COMMON).prop_map(collection_rooted),
        1 => Just(Val::Map(vec![])),
        1 => Just(Val::Seq(vec![])),
        3 => (first_key(), scalar_strategy(Shape::COMMON), val_strategy(Shape { depth: 3, size: 12, ..Shape::COMMON })).prop_map(|(k, v, rest)| {
            let mut m = vec![(Val::Str(k.clone()), v)];
            if let Val::Map(more) = table_rooted(rest) {
                for (k2, v2) in more {
                    if k2 != Val::Str(k.clone()) {
                        m.push((k2, v2));
                    }
                }
            }
            Val::Map(m)
        }),
        1 => (first_key(), proptest::collection::vec(scalar_strategy(Shape::COMMON), 0..4)).prop_map(|(k, mut rest)| {
            rest.insert(0, Val::Str(k));
            Val::Seq(rest)
        }),
    ]
    .boxed()
}

fn case_strategy() -> BoxedStrategy<Case> {
    (proptest::collection::vec(collection_doc(), 1..4), fmt_strategy(), fmt_strategy(), style_strategy(), mode_strategy())
        .prop_map(|(docs, a, f, style, mode)| Case { docs, a, f, style, mode })
        .boxed()
}

/// The statement's precondition for TOML output, evaluated without xt.
pub fn toml_precondition(text: &[u8]) -> bool {
    !crate::rd_json::value_at_start(text) && crate::rd_yaml::first_doc_is_collection(text) != Some(true)
}

pub fn check_case(c: &Case, rec: &mut Recorder) -> Result<(), String> {
    // source text in A
    let single = c.a == Fmt::Toml || c.f == Fmt::Toml;
    let docs: Vec<Val> = c.docs.iter().take(if single { 1 } else { c.docs.len() }).map(|d| if c.a == Fmt::Toml || c.f == Fmt::Toml { strip_for_toml(table_rooted(d.clone())) } else { d.clone() }).collect();
    if docs.iter().any(|d| !writable(d, c.a) || !representable(d, c.f)) {
        rec.reject();
        return Ok(());
    }
    let x = crate::corpus::write_stream(c.a, &docs, &[c.style.clone()], &[1, 1, 1]);
    match read_any(&x, c.a) {
        Ok(d) if d.len() == docs.len() => {}
        _ => {
            rec.reject();
            return Ok(());
        }
    }
    let y = run_slice(&x, Some(c.a), c.f);
    if let Verdict::Panic(p) = &y.verdict {
        return Err(format!("panic producing {} output: {}", c.f.name(), p));
    }
    if !y.verdict.is_ok() {
        rec.class("first_hop_refused");
        return Ok(());
    }
    let y = y.out;
    let f = c.f;
    let precondition = f != Fmt::Toml || toml_precondition(&y);
    rec.class(&format!("output:{}", f.name()));
    if f == Fmt::Toml {
        rec.class(if precondition { "toml_precondition_holds" } else { "toml_precondition_excluded" });
    }
    for mode in [Mode::Slice, c.mode.clone()] {
        let (det, saw_eof) = detect_eof(&y, &mode);
        let det = det.map_err(|e| format!("[{}] detection failed on xt's own {} output: {} (output {:?})", mode.class(), f.name(), e, brief_bytes(&y)))?;
        if precondition && det != Some(f) {
            return Err(format!("[{}] xt's own {} output is detected as {}: {:?}", mode.class(), f.name(), opt_name(det), brief_bytes(&y)));
        }
        for to in FORMATS {
            let d = run_mode(&y, &mode, None, to);
            if let Verdict::Panic(p) = &d.verdict {
                return Err(format!("[{} detect -> {}] panic on xt's own output: {}", mode.class(), to.name(), p));
            }
            rec.count(Some(hash_bytes(&[&y, f.name().as_bytes(), to.name().as_bytes(), mode.class().as_bytes()])));
            if !precondition {
                continue;
            }
            let e = run_mode(&y, &mode, Some(f), to);
            if d.verdict == e.verdict && d.out == e.out {
                continue;
            }
            // the two known ways in which detected and explicit *failing* reader runs differ (C09)
            let both_err = d.verdict.is_err() && e.verdict.is_err();
            let k4 = matches!(mode, Mode::Reader(_)) && saw_eof && both_err && is_known_class("C10", "reader_consumed_by_detection_takes_slice_path") && {
                let es = run_slice(&y, Some(f), to);
                es.verdict == d.verdict && es.out == d.out
            };
            let k6 = f == Fmt::Yaml
                && matches!(mode, Mode::Reader(_))
                && both_err
                && is_known_class("C10", "yaml_reader_level_defect_read_boundaries")
                && prefix_comparable(&d.out, &e.out)
                && (reader_level_error(d.verdict.text()) || reader_level_error(e.verdict.text()))
                && yaml_reader_level_defect(&y);
            if k4 {
                rec.known("reader_consumed_by_detection_takes_slice_path");
            } else if k6 {
                rec.known("yaml_reader_level_defect_read_boundaries");
            } else {
                return Err(format!(
                    "[{} -> {}] feeding xt's own {} output back without a format differs from naming {}: detected {} / explicit {} (output {:?})",
                    mode.class(),
                    to.name(),
                    f.name(),
                    f.name(),
                    d.brief(),
                    e.brief(),
                    brief_bytes(&y)
                ));
            }
        }
    }
    rec.class(&format!("docs:{}", docs.len()));
    rec.class(&format!("mode:{}", c.mode.class()));
    rec.sample(|| json!({"f": f.name(), "docs": docs.len(), "mode": c.mode.class(), "output": brief_bytes(&y)}));
    Ok(())
}

impl Check for C10 {
    fn id(&self) -> &'static str {
        "C10"
    }
    fn level(&self) -> &'static str {
        "exploration"
    }
    fn rule(&self) -> String {
        "Generated: 1..3 collection-rooted model documents (empty collections; first keys that are empty, numeric-looking, quoted, non-ASCII, or start with a byte in 0x80..0xDF once encoded) written in source format A and translated by xt to F (unit 'sizes': maps and arrays of 0, 1, 15, 16, 17, 255, 256, 65535 and 65536 entries, i.e. every header width the writers use); the output y is then fed back with no format named, from a slice and from a drawn reader schedule, for all 4 targets X. Oracle: the hook reports detect(y) == F, and xt(None->X)(y) equals xt(F->X)(y) in verdict, bytes and error text. For F = TOML the statement's precondition is evaluated by harness predicates that do not use xt (own JSON reader finds no value at offset 0; libyaml events show no collection as first document); cases failing it are counted 'toml_precondition_excluded' and only checked for totality. One evaluation = one (y, F, X, mode); every counted case is non-trivial (a real xt output fed back); distinct by hash.".into()
    }
    fn assumptions(&self) -> Vec<String> {
        vec!["known findings K4/K6 (C09) license differences between failing detected and explicit reader runs".into()]
    }
    fn units(&self, tier: Tier) -> Vec<Unit> {
        vec![Unit::gen("gen", 16, tier.pick(20_000, 150_000)), Unit::enumerate("sizes", 10)]
    }
    fn required_classes(&self, _tier: Tier) -> Vec<&'static str> {
        vec!["output:json", "output:msgpack", "output:yaml", "output:toml", "toml_precondition_holds", "toml_precondition_excluded", "docs:1", "docs:3", "mode:slice", "mode:bytewise", "sizes:65536", "sizes:0"]
    }
    fn extra_coverage(&self, _tier: Tier) -> J {
        json!({})
    }
    fn run_unit(&self, unit: &Unit, shard: u32, seed: u64, _tier: Tier, rec: &mut Recorder) {
        if unit.name == "sizes" {
            // collections at every header-width boundary of the writers
            let mut n = 0u32;
            for count in [0usize, 1, 15, 16, 17, 255, 256, 65535, 65536] {
                for is_map in [false, true] {
                    n += 1;
                    if n % unit.shards != shard {
                        continue;
                    }
                    let doc = if is_map { Val::Map((0..count).map(|i| (Val::Str(format!("k{}", i)), Val::Int(i as i128))).collect()) } else { Val::Seq((0..count).map(|i| Val::Int(i as i128)).collect()) };
                    for f in FORMATS {
                        let c = Case { docs: vec![doc.clone()], a: Fmt::Msgpack, f, style: Style::canonical(), mode: Mode::Reader(crate::sio::Sched::Fixed(4096)) };
                        rec.class(&format!("sizes:{}", count));
                        if let Err(m) = check_case(&c, rec) {
                            rec.fail(format!("{} with {} entries: {}", if is_map { "map" } else { "array" }, count, m), json!({"unit": "sizes", "count": count, "map": is_map, "f": f.name()}));
                            return;
                        }
                    }
                }
            }
            if shard == 0 {
                // large outputs (the TOML trial of a reader stops at 2 MiB by design, a
                // slice has no such limit) and strings with characters TOML writes raw
                let multibyte = |k: usize| -> String {
                    let chars = ['\u{e9}', '\u{20ac}', '\u{1f600}', 'x', '\u{30a2}'];
                    (0..(24_000 + 1111 * k)).map(|i| chars[(i + k + i / 7) % 5]).collect()
                };
                for (name, doc) in [
                    // longer than libyaml's 16 KiB input buffer, multi-byte characters at every alignment
                    ("multibyte_map", Val::Map(vec![(Val::s("k"), Val::Str(multibyte(0))), (Val::s("l"), Val::Seq(vec![Val::Str(multibyte(1))]))])),
                    ("multibyte_seq", Val::Map(vec![(Val::s("root"), Val::Seq(vec![Val::Str(multibyte(2)), Val::Str(multibyte(3)), Val::Int(1)]))])),
                    ("multibyte_keys", Val::Map((0..6).map(|k| (Val::Str(multibyte(k).chars().take(3000 + 7 * k).collect::<String>()), Val::Str(multibyte(k + 1)))).collect())),
                    ("large_1.5MiB", Val::Map(vec![(Val::s("k"), Val::Str("v".repeat(1_500_000)))])),
                    ("large_2.2MiB", Val::Map(vec![(Val::s("k"), Val::Str("v".repeat(2_200_000)))])),
                    ("c1_controls", Val::Map(vec![(Val::s("a"), Val::s("x\u{80}y\u{9f}z")), (Val::s("b\u{fffe}"), Val::s("\u{ffff}"))])),
                ] {
                    for f in FORMATS {
                        for mode in [Mode::Slice, Mode::Reader(crate::sio::Sched::Fixed(8192))] {
                            // a TOML reader of 2 MiB or more is outside detection by design
                            if f == Fmt::Toml && name == "large_2.2MiB" && mode != Mode::Slice {
                                continue;
                            }
                            let c = Case { docs: vec![doc.clone()], a: Fmt::Msgpack, f, style: Style::canonical(), mode: mode.clone() };
                            rec.class(&format!("sizes:{}", name));
                            if let Err(m) = check_case(&c, rec) {
                                rec.fail(format!("{}: {}", name, m), c.to_json("gen"));
                                return;
                            }
                        }
                    }
                }
            }
            return;
        }
        run_prop(rec, seed, unit.cases, case_strategy(), |c| c.to_json("gen"), check_case);
    }
    fn replay(&self, case: &J) -> Result<(), String> {
        if case["unit"].as_str() == Some("sizes") {
            let count = case["count"].as_u64().ok_or("no count")? as usize;
            let doc = if case["map"].as_bool().unwrap_or(false) { Val::Map((0..count).map(|i| (Val::Str(format!("k{}", i)), Val::Int(i as i128))).collect()) } else { Val::Seq((0..count).map(|i| Val::Int(i as i128)).collect()) };
            let c = Case { docs: vec![doc], a: Fmt::Msgpack, f: Fmt::from_name(case["f"].as_str().ok_or("no f")?).ok_or("bad f")?, style: Style::canonical(), mode: Mode::Reader(crate::sio::Sched::Fixed(4096)) };
            return check_case(&c, &mut Recorder::default());
        }
        check_case(&Case::from_json(case).ok_or("bad case")?, &mut Recorder::default())
    }
    fn confirm_known(&self, k: &Known) -> bool {
        match k.class.as_str() {
            "yaml_plain_number_overflow" => false, // not used by this check's oracle
            _ => crate::checks::c09::C09.confirm_known(k),
        }
    }
}
