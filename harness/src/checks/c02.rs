//! C02 Result is independent of input source and read schedule.

use proptest::prelude::*;
use serde_json::{json, Value as J};

use crate::corpus::*;
use crate::runner::*;
use crate::sio::*;
use crate::util::*;
use crate::xtapi::*;

pub struct C02;

#[derive(Clone, Debug)]
pub struct Case {
    pub bytes: Vec<u8>,
    pub family: &'static str,
    pub from: Option<Fmt>,
    pub sched: Sched,
}

pub fn from_strategy() -> BoxedStrategy<Option<Fmt>> {
    prop_oneof![
        2 => Just(None),
        1 => Just(Some(Fmt::Json)),
        1 => Just(Some(Fmt::Msgpack)),
        1 => Just(Some(Fmt::Toml)),
        2 => Just(Some(Fmt::Yaml)),
    ]
    .boxed()
}

/// Source selection biased towards the format the bytes were derived from.
pub fn from_for(origin: Option<Fmt>) -> BoxedStrategy<Option<Fmt>> {
    match origin {
        Some(f) => prop_oneof![3 => Just(Some(f)), 3 => Just(None), 2 => from_strategy()].boxed(),
        None => from_strategy(),
    }
}

fn case_strategy() -> BoxedStrategy<Case> {
    bytes_strategy()
        .prop_flat_map(|b| {
            let origin = b.origin;
            (Just(b), from_for(origin), sched_strategy())
        })
        .prop_map(|(b, from, sched)| Case { bytes: b.bytes, family: b.family, from, sched })
        .boxed()
}

pub fn case_json(unit: &str, bytes: &[u8], from: Option<Fmt>, sched: &Sched, to: Option<Fmt>) -> J {
    json!({"unit": unit, "bytes": hex(bytes), "text": brief_bytes(bytes), "from": opt_name(from), "sched": sched.to_json(),
           "to": to.map(Fmt::name)})
}

/// The differential oracle of C02 for one (bytes, from, to, schedule).
/// Returns Ok(Some(class)) when the disagreement is a listed known finding.
pub fn diff_supply(bytes: &[u8], from: Option<Fmt>, to: Fmt, sched: &Sched, property: &str) -> Result<(Option<&'static str>, Outcome, Outcome), String> {
    let s = run_slice(bytes, from, to);
    let r = run_sched(bytes, sched, from, to);
    let verdict_class = |v: &Verdict| match v {
        Verdict::Ok => 0,
        Verdict::Err(_) => 1,
        Verdict::Panic(_) => 2,
    };
    let mut problem: Option<String> = None;
    if s.verdict.is_panic() || r.verdict.is_panic() {
        problem = Some(format!("panic: slice {} / reader {}", s.verdict.brief(), r.verdict.brief()));
    } else if verdict_class(&s.verdict) != verdict_class(&r.verdict) {
        problem = Some(format!("verdicts differ: slice {} / reader[{}] {}", s.brief(), sched.class(), r.brief()));
    } else if s.verdict.is_ok() && s.out != r.out {
        problem = Some(format!("both succeed but outputs differ: slice {:?} / reader[{}] {:?}", brief_bytes(&s.out), sched.class(), brief_bytes(&r.out)));
    } else if !prefix_comparable(&s.out, &r.out) {
        problem = Some(format!("both fail but partial outputs are not prefix-comparable: slice {:?} / reader {:?}", brief_bytes(&s.out), brief_bytes(&r.out)));
    }
    let problem = match problem {
        None => return Ok((None, s, r)),
        Some(p) => p,
    };
    // known classes: input-side predicate + licensed shape
    let json_source = matches!(from, Some(Fmt::Json) | None);
    if json_source
        && is_known_class(property, "json_scalar_without_separator")
        && matches!(&s.verdict, Verdict::Err(e) if e.contains("trailing characters"))
        && !r.verdict.is_panic()
        && prefix_comparable(&s.out, &r.out)
        && crate::rd_json::has_glued_scalar(bytes)
    {
        return Ok((Some("json_scalar_without_separator"), s, r));
    }
    if json_source
        && to == Fmt::Toml
        && is_known_class(property, "json_duplicate_key_to_toml")
        && s.verdict.is_ok()
        && matches!(&r.verdict, Verdict::Err(e) if e.contains("duplicate key"))
        && crate::rd_json::has_duplicate_key(bytes)
    {
        return Ok((Some("json_duplicate_key_to_toml"), s, r));
    }
    // K6, detection flavour (see C09): with no format named, a stream holding a
    // character the YAML input reader rejects can be taken for YAML under one
    // supply mode and for another format (or none) under the other, because
    // libyaml validates its raw buffer ahead of the first document. Licensed only
    // when the hook confirms that exactly one mode detects YAML, that mode is the
    // one that failed, with a reader-level error, and the input-side predicate holds.
    if from.is_none() && is_known_class(property, "yaml_reader_level_defect_read_boundaries") && crate::checks::c09::yaml_reader_level_defect(bytes) {
        let ds = detect(bytes, &Mode::Slice);
        let dr = detect(bytes, &Mode::Reader(sched.clone()));
        let (ys, yr) = (ds == Ok(Some(Fmt::Yaml)), dr == Ok(Some(Fmt::Yaml)));
        let failing_side_is_yaml = (ys && !yr && matches!(&s.verdict, Verdict::Err(e) if crate::checks::c09::reader_level_error(e)))
            || (yr && !ys && matches!(&r.verdict, Verdict::Err(e) if crate::checks::c09::reader_level_error(e)));
        if failing_side_is_yaml && prefix_comparable(&s.out, &r.out) || (failing_side_is_yaml && (s.verdict.is_ok() != r.verdict.is_ok())) {
            return Ok((Some("yaml_reader_level_defect_read_boundaries"), s, r));
        }
    }
    Err(problem)
}

pub fn check_bytes(unit: &str, bytes: &[u8], family: &str, from: Option<Fmt>, sched: &Sched, rec: &mut Recorder) -> Result<(), String> {
    let _ = unit;
    for to in FORMATS {
        let (known, s, r) = diff_supply(bytes, from, to, sched, "C02").map_err(|m| format!("[{} -> {}] {}", opt_name(from), to.name(), m))?;
        let nontrivial = s.verdict.is_ok() || r.verdict.is_ok() || !s.out.is_empty() || !r.out.is_empty();
        let h = hash_bytes(&[bytes, opt_name(from).as_bytes(), to.name().as_bytes(), sched.class().as_bytes()]);
        rec.count(if nontrivial { Some(h) } else { None });
        if let Some(k) = known {
            rec.known(k);
        }
        rec.class(if s.verdict.is_ok() { "verdict:ok" } else { "verdict:err" });
        if !s.verdict.is_ok() && (!s.out.is_empty() || !r.out.is_empty()) {
            rec.class("failed_after_partial_output");
        }
    }
    rec.class(&format!("family:{}", family));
    rec.class(&format!("from:{}", opt_name(from)));
    rec.class(&format!("sched:{}", sched.class()));
    rec.sample(|| json!({"family": family, "from": opt_name(from), "sched": sched.class(), "input": brief_bytes(bytes)}));
    Ok(())
}

/// Large valid streams (up to ~1.9 MiB) whose documents straddle buffer
/// boundaries.
/// A TOML document of exactly `size` bytes, many short lines under a table header
/// (the YAML trial gives up on line 2, long before the end of the stream).
pub fn toml_of_size(size: usize) -> Vec<u8> {
    let mut doc = String::with_capacity(size);
    doc.push_str("[table]\n");
    let mut n = 0;
    while doc.len() + 64 < size {
        doc.push_str(&format!("key{:07} = \"value {:07}\"\n", n, n));
        n += 1;
    }
    doc.push('#');
    while doc.len() + 1 < size {
        doc.push('.');
    }
    doc.push('\n');
    doc.into_bytes()
}

fn large_inputs(shard: u32, n: usize) -> Vec<(Fmt, Vec<u8>)> {
    let mut out = vec![];
    for i in 0..n {
        let k = shard as usize * 131 + i * 17;
        let pad = "x".repeat(8192 - 40 + (k % 80));
        let docs_n = 3 + (k % 5) * 40;
        let mut json = String::new();
        let mut yaml = String::new();
        let mut mp = vec![];
        for d in 0..docs_n {
            let s = format!("{}{}", d, &pad[..pad.len().min(200 + (d * 977 + k) % 8000)]);
            json.push_str(&format!("{{\"k\":\"{}\",\"n\":[{},{}.5,true,null]}}\n", s, d, d));
            yaml.push_str(&format!("---\nk: \"{}\"\nn: [{}, {}.5, true, null]\n", s, d, d));
            let v = crate::model::Val::Map(vec![
                (crate::model::Val::s("k"), crate::model::Val::Str(s.clone())),
                (crate::model::Val::s("n"), crate::model::Val::Seq(vec![crate::model::Val::Int(d as i128), crate::model::Val::Null])),
            ]);
            mp.extend(crate::wr_msgpack::write_doc(&v, &Style::canonical()));
        }
        out.push((Fmt::Json, json.into_bytes()));
        out.push((Fmt::Yaml, yaml.into_bytes()));
        out.push((Fmt::Msgpack, mp));
        let toml = format!("a = \"{}\"\n[t]\nb = [{}]\n", pad.repeat(1 + k % 200), (0..(k % 3000)).map(|x| x.to_string()).collect::<Vec<_>>().join(", "));
        out.push((Fmt::Toml, toml.into_bytes()));
        // dense multi-byte text (characters straddle every internal buffer boundary)
        let chars = ['\u{e9}', '\u{20ac}', '\u{1f600}', '\u{30a2}'];
        let mut y = String::new();
        let mut j = String::new();
        for d in 0..(2 + k % 3) {
            let mut line = String::new();
            for c in 0..(9000 + 777 * k + 1301 * d) {
                if (c + k) % 5 == 0 {
                    line.push('x');
                }
                line.push(chars[(c + d) % 4]);
            }
            y.push_str(&format!("---\n- \"{}\"\n", line));
            j.push_str(&format!("[\"{}\"]\n", line));
        }
        out.push((Fmt::Yaml, y.into_bytes()));
        out.push((Fmt::Json, j.into_bytes()));
        // TOML just below and above the 2 MiB detection cut-off for readers; the
        // table header makes the YAML trial give up at once
        for (si, size) in [2_000_100usize, 2_097_151 - 64, 2_097_151, 2_097_152, 2_097_153 + 4096].into_iter().enumerate() {
            if (si + k + shard as usize) % 5 != 0 {
                continue;
            }
            out.push((Fmt::Toml, toml_of_size(size)));
        }
    }
    out
}

impl Check for C02 {
    fn id(&self) -> &'static str {
        "C02"
    }
    fn level(&self) -> &'static str {
        "exploration"
    }
    fn rule(&self) -> String {
        "Differential: the same bytes are translated from an in-memory slice and from a reader that follows a drawn read schedule (bytewise, fixed, drawn sizes, explicit cuts, everything at once), for each of the 5 source selections and all 4 targets; verdicts must agree, successful outputs must be byte-identical, failed partial outputs prefix-comparable. Inputs: valid 1..4-document streams from the spelling writers, their mutated/truncated/spliced variants, token sequences (all sequences up to length L over each format's alphabet in unit 'tokens', random longer ones), random bytes, repository fixtures, large boundary-straddling streams; unit 'cli' compares file (mmap), stdin and FIFO through the real binary. One evaluation = one (bytes, source selection, target, schedule). Non-trivial = at least one of the two runs succeeded or wrote output; distinct by hash of (bytes, source, target, schedule class).".into()
    }
    fn assumptions(&self) -> Vec<String> {
        vec![
            "error texts are not compared (C02 does not promise that)".into(),
            "known findings K1 (glued JSON scalars) and K2 (duplicate JSON key to TOML) are excluded by input-side predicates plus the exact licensed shape of disagreement".into(),
        ]
    }
    fn needs_cli(&self) -> bool {
        true
    }
    fn units(&self, tier: Tier) -> Vec<Unit> {
        vec![
            Unit::gen("gen", 16, tier.pick(30_000, 250_000)),
            Unit::enumerate("tokens", 16),
            Unit::enumerate("large", tier.pick(4, 16)),
            Unit::enumerate("cli", tier.pick(4, 16)),
        ]
    }
    fn required_classes(&self, _tier: Tier) -> Vec<&'static str> {
        vec!["family:valid_stream", "family:mutated_stream", "family:token_seq", "family:random_bytes", "from:detect", "from:yaml", "sched:bytewise", "sched:cuts", "verdict:ok", "verdict:err", "failed_after_partial_output", "toml_near_2MiB_detection_cutoff"]
    }
    fn run_unit(&self, unit: &Unit, shard: u32, seed: u64, tier: Tier, rec: &mut Recorder) {
        match unit.name {
            "gen" => run_prop(
                rec,
                seed,
                unit.cases,
                case_strategy(),
                |c| case_json("gen", &c.bytes, c.from, &c.sched, None),
                |c, r| check_bytes("gen", &c.bytes, c.family, c.from, &c.sched, r),
            ),
            "tokens" => {
                let max_len = tier.pick(3, 4);
                for fmt in FORMATS {
                    // msgpack alphabet is large; its token sequences are cheap
                    let total = token_seq_count(fmt, max_len);
                    let mut idx = shard as u64;
                    while idx < total {
                        let bytes = token_seq(fmt, idx);
                        let scheds = [Sched::Fixed(1), Sched::Fixed(2)];
                        let sched = &scheds[(idx / unit.shards as u64 % 2) as usize];
                        for from in [Some(fmt), None] {
                            if rec.tracing() {
                                rec.trace_case(|| case_json("tokens", &bytes, from, sched, None));
                            }
                            if let Err(m) = check_bytes("tokens", &bytes, "token_enum", from, sched, rec) {
                                rec.fail(m, case_json("tokens", &bytes, from, sched, None));
                                return;
                            }
                        }
                        idx += unit.shards as u64;
                    }
                }
            }
            "large" => {
                for (fmt, bytes) in large_inputs(shard, tier.pick(1, 3)) {
                    for (i, sched) in [Sched::Full, Sched::Fixed(8191), Sched::Sizes(vec![1, 8192, 3, 16384, 100])].iter().enumerate() {
                        // (at 2 MiB and above TOML detection from a reader is switched off by design)
                        let detect_ok = !(fmt == Fmt::Toml && bytes.len() >= 2 * 1024 * 1024);
                        let from = if i == 1 && detect_ok { None } else { Some(fmt) };
                        if fmt == Fmt::Toml && bytes.len() > 1_900_000 {
                            rec.class("toml_near_2MiB_detection_cutoff");
                        }
                        if rec.tracing() {
                            rec.trace_case(|| case_json("large", &bytes, from, sched, None));
                        }
                        if let Err(m) = check_bytes("large", &bytes, "large_stream", from, sched, rec) {
                            rec.fail(m, case_json("large", &bytes, from, sched, None));
                            return;
                        }
                    }
                }
            }
            "cli" => crate::cli::c02_cli_unit(unit, shard, seed, tier, rec),
            other => panic!("unknown unit {}", other),
        }
    }
    fn replay(&self, case: &J) -> Result<(), String> {
        let bytes = unhex(case["bytes"].as_str().ok_or("no bytes")?).ok_or("bad hex")?;
        let from = opt_from_name(case["from"].as_str().ok_or("no from")?).ok_or("bad from")?;
        if case["unit"].as_str() == Some("cli") {
            return crate::cli::c02_cli_replay(case);
        }
        let sched = Sched::from_json(&case["sched"]).ok_or("bad sched")?;
        let mut rec = Recorder::default();
        check_bytes("replay", &bytes, "replay", from, &sched, &mut rec)
    }
    fn confirm_known(&self, k: &Known) -> bool {
        if k.class == "yaml_reader_level_defect_read_boundaries" {
            let bytes = k.example.get("detect_example_hex").and_then(|s| s.as_str()).and_then(unhex).unwrap_or_default();
            return matches!(diff_supply(&bytes, None, Fmt::Json, &Sched::Fixed(1), "C02"), Ok((Some(c), _, _)) if c == k.class);
        }
        let text = k.example.get("input").and_then(|s| s.as_str()).unwrap_or("");
        let to = k.example.get("to").and_then(|s| s.as_str()).and_then(Fmt::from_name).unwrap_or(Fmt::Json);
        match diff_supply(text.as_bytes(), Some(Fmt::Json), to, &Sched::Full, "C02") {
            Ok((Some(c), _, _)) => c == k.class,
            _ => false,
        }
    }
}
