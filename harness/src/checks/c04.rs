//! C04 Totality: no panic, abort, stack overflow or hang on any input.

use proptest::prelude::*;
use serde_json::{json, Value as J};

use crate::checks::c02::{case_json, from_for};
use crate::cli::*;
use crate::corpus::*;
use crate::model::*;
use crate::runner::*;
use crate::sio::*;
use crate::util::*;
use crate::xtapi::*;

pub struct C04;

/// Runs slice and reader for one (bytes, from, to); Err when either panics.
pub fn total(bytes: &[u8], from: Option<Fmt>, to: Fmt, sched: &Sched) -> Result<(Outcome, Outcome), String> {
    let s = run_slice(bytes, from, to);
    if let Verdict::Panic(p) = &s.verdict {
        return Err(format!("[{} -> {}] slice input panicked: {}", opt_name(from), to.name(), p));
    }
    let r = run_sched(bytes, sched, from, to);
    if let Verdict::Panic(p) = &r.verdict {
        return Err(format!("[{} -> {}] reader[{}] input panicked: {}", opt_name(from), to.name(), sched.class(), p));
    }
    // and with an output that stops accepting bytes somewhere (offset drawn from
    // the case itself): the failure must come back as an error as well
    if !r.out.is_empty() && r.out.len() <= 1 << 20 {
        let k = (hash_bytes(&[bytes, to.name().as_bytes()]) % r.out.len() as u64) as usize;
        for slice_input in [false, true] {
            let mut w = FaultWriter::new(Some(k), None);
            let v = if slice_input {
                guarded(|| xt::translate_slice(bytes, from.map(Fmt::xt), to.xt(), &mut w))
            } else {
                guarded(|| xt::translate_reader(SchedReader::new(bytes, sched.clone()), from.map(Fmt::xt), to.xt(), &mut w))
            };
            if let Verdict::Panic(p) = &v {
                return Err(format!("[{} -> {}] {} input with a writer failing at byte {} panicked: {}", opt_name(from), to.name(), if slice_input { "slice" } else { "reader" }, k, p));
            }
        }
    }
    Ok((s, r))
}

pub fn check_bytes(bytes: &[u8], family: &str, from: Option<Fmt>, sched: &Sched, rec: &mut Recorder) -> Result<(), String> {
    check_bytes_named(bytes, family, None, from, sched, rec)
}

/// `name`: for adversarial inputs, traced per translation so that a hang is
/// attributed to one (input, source, target) and confirmed on that alone.
pub fn check_bytes_named(bytes: &[u8], family: &str, name: Option<&str>, from: Option<Fmt>, sched: &Sched, rec: &mut Recorder) -> Result<(), String> {
    for to in FORMATS {
        if let (Some(n), true) = (name, rec.tracing()) {
            rec.trace_case(|| json!({"unit": "adversarial", "name": n, "from": opt_name(from), "sched": sched.to_json(), "to": to.name()}));
        }
        let (s, r) = total(bytes, from, to, sched)?;
        // non-trivial: some parser got past the very first token, i.e. output was
        // produced, the run succeeded, or the error is not at position 0/1
        let progressed = |o: &Outcome| o.verdict.is_ok() || !o.out.is_empty() || !(o.verdict.text().contains("line 1 column 1") || o.verdict.text().contains("unable to detect"));
        let nontrivial = progressed(&s) || progressed(&r);
        rec.count(if nontrivial { Some(hash_bytes(&[bytes, opt_name(from).as_bytes(), to.name().as_bytes()])) } else { None });
        rec.class(if s.verdict.is_ok() { "verdict:ok" } else { "verdict:err" });
    }
    rec.class(&format!("family:{}", family));
    rec.class(&format!("from:{}", opt_name(from)));
    rec.sample(|| json!({"family": family, "from": opt_name(from), "sched": sched.class(), "input": brief_bytes(bytes)}));
    Ok(())
}

#[derive(Clone, Debug)]
struct Case {
    bytes: Vec<u8>,
    family: &'static str,
    from: Option<Fmt>,
    sched: Sched,
}

fn case_strategy() -> BoxedStrategy<Case> {
    bytes_strategy()
        .prop_flat_map(|b| {
            let origin = b.origin;
            (Just(b), from_for(origin), sched_strategy())
        })
        .prop_map(|(b, from, sched)| Case { bytes: b.bytes, family: b.family, from, sched })
        .boxed()
}

// ---------------------------------------------------------------------------
// Refusal cases

/// Replaces the `target`-th node (pre-order; map keys count as nodes) of `v`.
pub fn plant_at(v: &Val, target: usize, counter: &mut usize, replacement: &Val, hit_key: &mut bool) -> Val {
    let my = *counter;
    *counter += 1;
    if my == target {
        return replacement.clone();
    }
    match v {
        Val::Seq(items) => Val::Seq(items.iter().map(|x| plant_at(x, target, counter, replacement, hit_key)).collect()),
        Val::Map(entries) => Val::Map(
            entries
                .iter()
                .map(|(k, x)| {
                    if *counter == target {
                        *hit_key = true;
                    }
                    let k2 = plant_at(k, target, counter, replacement, hit_key);
                    let x2 = plant_at(x, target, counter, replacement, hit_key);
                    (k2, x2)
                })
                .collect(),
        ),
        other => other.clone(),
    }
}

pub fn plant(v: &Val, index: &mut usize, replacement: &Val, hit_key: &mut bool) -> Val {
    let mut counter = 0;
    plant_at(v, *index, &mut counter, replacement, hit_key)
}

/// (source, target, refusable value, allowed in key position)
pub fn refusals() -> Vec<(Fmt, Fmt, Val, &'static str)> {
    let mut out = vec![];
    for src in [Fmt::Json, Fmt::Yaml, Fmt::Msgpack] {
        out.push((src, Fmt::Toml, Val::Null, "null_to_toml"));
        out.push((src, Fmt::Toml, Val::Int(u64::MAX as i128), "u64_to_toml"));
    }
    for src in [Fmt::Yaml, Fmt::Msgpack] {
        for tgt in [Fmt::Json, Fmt::Toml] {
            out.push((src, tgt, Val::Null, "null_key"));
            out.push((src, tgt, Val::Seq(vec![Val::Int(1)]), "seq_key"));
            out.push((src, tgt, Val::Map(vec![(Val::s("a"), Val::Int(1))]), "map_key"));
            out.push((src, tgt, Val::Float(1.5), "float_key"));
            out.push((src, tgt, Val::Bool(true), "bool_key"));
        }
        out.push((src, Fmt::Yaml, Val::Seq(vec![Val::Int(1)]), "seq_key"));
        out.push((src, Fmt::Msgpack, Val::Map(vec![]), "map_key"));
    }
    for tgt in FORMATS {
        out.push((Fmt::Msgpack, tgt, Val::Bytes(vec![0xff, 0x00, 0x41]), "bytes"));
        out.push((Fmt::Msgpack, tgt, Val::Ext(5, vec![1, 2, 3, 4]), "ext"));
        out.push((Fmt::Msgpack, tgt, Val::F32(1.5), "f32"));
        out.push((Fmt::Yaml, tgt, Val::Float(f64::NAN), "nan"));
        out.push((Fmt::Msgpack, tgt, Val::Float(f64::INFINITY), "inf"));
        out.push((Fmt::Toml, tgt, Val::Datetime("1979-05-27T07:32:00Z".into()), "datetime"));
        out.push((Fmt::Toml, tgt, Val::Float(f64::NAN), "nan"));
    }
    out
}

fn refusal_case(tree: &Val, rec: &mut Recorder, unit: &'static str) -> Result<(), (String, J)> {
    let n = tree.node_count();
    for (src, tgt, bad, kind) in refusals() {
        for idx in 0..n {
            let mut i = idx;
            let mut hit_key = false;
            let doc = plant(tree, &mut i, &bad, &mut hit_key);
            let key_kind = kind.ends_with("_key");
            if key_kind != hit_key && key_kind {
                continue; // key-only refusals are planted in key position only
            }
            if hit_key && src == Fmt::Json {
                continue;
            }
            let doc = if src == Fmt::Toml { table_rooted(doc) } else { doc };
            if !crate::oracle::writable(&doc, src) || (src == Fmt::Toml && hit_key) {
                continue;
            }
            let style = if idx % 2 == 0 { Style::canonical() } else { Style { tape: vec![idx as u8, 77, 200, 31], cyclic: true } };
            let (text, _) = crate::oracle::write_source(&doc, src, &style);
            let sched = if idx % 3 == 0 { Sched::Fixed(1) } else { Sched::Full };
            let cj = || {
                let mut j = case_json(unit, &text, Some(src), &sched, Some(tgt));
                j["refusal"] = json!(kind);
                j
            };
            if rec.tracing() {
                rec.trace_case(cj);
            }
            match total(&text, Some(src), tgt, &sched) {
                Err(m) => return Err((format!("refusal '{}' planted at node {}: {}", kind, idx, m), cj())),
                Ok((s, _)) => {
                    rec.count(Some(hash_bytes(&[&text, tgt.name().as_bytes()])));
                    rec.class(&format!("refusal:{}", kind));
                    rec.class(if s.verdict.is_ok() { "refusal_accepted" } else { "refusal_refused" });
                    if idx >= 1 && tree.depth() >= 2 {
                        rec.class("refusal_nested");
                    }
                }
            }
        }
    }
    rec.sample(|| json!({"refusal_tree": tree.brief()}));
    Ok(())
}

fn c04_cli_case(bytes: &[u8], from: Option<Fmt>, to: Fmt, rec: &mut Recorder) -> Result<(), String> {
    let sc = Scratch::new("c04");
    let mut base: Vec<std::ffi::OsString> = vec![];
    if let Some(f) = from {
        base.push("-f".into());
        base.push(f.name().into());
    }
    base.push("-t".into());
    base.push(to.name().into());
    let file = sc.file("input.dat", bytes);
    for bin in [Bin::Debug, Bin::Release] {
        let mut a1 = base.clone();
        a1.push(file.clone().into());
        let r1 = run_xt(bin, &a1, &sc.dir, StdinSpec::Null, StdoutSpec::Pipe, vec![]);
        let r2 = run_xt(bin, &base, &sc.dir, StdinSpec::Bytes(bytes.to_vec()), StdoutSpec::Pipe, vec![]);
        for (how, r) in [("file", &r1), ("stdin", &r2)] {
            rec.count(Some(hash_bytes(&[bytes, opt_name(from).as_bytes(), to.name().as_bytes(), bin.name().as_bytes(), how.as_bytes()])));
            rec.class(&format!("cli_status:{}", r.status()));
            if r.timed_out {
                // a time budget alone decides nothing: confirm with ten times the budget
                let again = if how == "file" {
                    run_xt_limit(bin, &a1, &sc.dir, StdinSpec::Null, StdoutSpec::Pipe, vec![], 600)
                } else {
                    run_xt_limit(bin, &base, &sc.dir, StdinSpec::Bytes(bytes.to_vec()), StdoutSpec::Pipe, vec![], 600)
                };
                if again.timed_out {
                    return Err(format!("[cli {} {} {} -> {}] no result within 60 s, and none within 600 s when run again", bin.name(), how, opt_name(from), to.name()));
                }
                rec.notes.push(format!("slow run (> 60 s, finished within 600 s): {} {} {} -> {}", bin.name(), how, opt_name(from), to.name()));
                continue;
            }
            if !matches!(r.code, Some(0) | Some(1)) {
                return Err(format!("[cli {} {} {} -> {}] ended with {}", bin.name(), how, opt_name(from), to.name(), r.brief()));
            }
        }
        // a failure whose diagnostic cannot be written is still a failure with a
        // status, not an abort
        if r2.code == Some(1) && !r2.timed_out {
            for spec in [StderrSpec::DevFull] {
                let r3 = run_xt_full(bin, &base, &sc.dir, StdinSpec::Bytes(bytes.to_vec()), StdoutSpec::Pipe, spec, vec![], 60);
                rec.class("cli_unwritable_stderr");
                if !r3.timed_out && !matches!(r3.code, Some(0) | Some(1)) {
                    return Err(format!("[cli {} stdin {} -> {}, stderr {:?}] ended with {}", bin.name(), opt_name(from), to.name(), spec, r3.brief()));
                }
            }
        }
    }
    Ok(())
}

impl Check for C04 {
    fn id(&self) -> &'static str {
        "C04"
    }
    fn level(&self) -> &'static str {
        "exploration"
    }
    fn rule(&self) -> String {
        "Every generated byte string (valid streams of each format, structure-aware mutations, splices, token sequences - all of them up to length L in unit 'tokens' -, random bytes, fixtures, adversarial shapes: nesting 10^3..10^6, length prefixes up to 2^32-1, alias bombs, lone anchors, empty input) is translated with each of the 5 source selections to all 4 targets from a slice and from a scheduled reader inside crash-isolated worker processes (panics caught and reported, a dead worker's fatal case recovered by traced re-execution, a watchdog for hangs); unit 'refusal' plants one value the target must refuse (null, oversized int, non-string/composite key, bytes, ext, f32, non-finite float, date-time) at every node path of generated trees; unit 'cli' runs a sample through the debug and release binaries (file and stdin) and requires exit status 0 or 1. One evaluation = one (bytes, source selection, target) pair run in both supply modes. Non-trivial = some parser got beyond the first token (output written, success, or an error not at line 1 column 1 / not 'unable to detect'); distinct by hash of (bytes, source, target).".into()
    }
    fn assumptions(&self) -> Vec<String> {
        vec![
            "harness profile: opt-level 3 with debug assertions and overflow checks on, panic=unwind so panics are observable; the shipped panic=abort binaries are exercised in unit 'cli'".into(),
            "a case that exceeds the watchdog is re-run alone; only a confirmed non-termination is a violation, any other timeout is inconclusive (exit 2)".into(),
        ]
    }
    fn needs_cli(&self) -> bool {
        true
    }
    fn watchdog_secs(&self) -> u64 {
        // a single translation of these inputs takes micro- to milliseconds (the
        // slowest adversarial shapes a few seconds); a minute without any result
        // is handed to the confirmation run, which allows ten minutes
        60
    }
    fn units(&self, tier: Tier) -> Vec<Unit> {
        vec![
            Unit::gen("gen", 16, tier.pick(8000, 250_000)),
            Unit::enumerate("tokens", 16),
            Unit::enumerate("adversarial", 16),
            Unit::gen("refusal", 8, tier.pick(40, 1200)),
            Unit::gen("cli", tier.pick(4, 16), tier.pick(20, 150)),
        ]
    }
    fn required_classes(&self, _tier: Tier) -> Vec<&'static str> {
        vec!["family:valid_stream", "family:mutated_stream", "family:random_bytes", "family:adversarial", "refusal:null_to_toml", "refusal:seq_key", "refusal:bytes", "refusal_refused", "refusal_nested", "cli_status:exit 0", "cli_status:exit 1", "cli_unwritable_stderr"]
    }
    fn run_unit(&self, unit: &Unit, shard: u32, seed: u64, tier: Tier, rec: &mut Recorder) {
        match unit.name {
            "gen" => run_prop(
                rec,
                seed,
                unit.cases,
                case_strategy(),
                |c| case_json("gen", &c.bytes, c.from, &c.sched, None),
                |c, r| check_bytes(&c.bytes, c.family, c.from, &c.sched, r),
            ),
            "tokens" => {
                let max_len = tier.pick(3, 4);
                for fmt in FORMATS {
                    let total = token_seq_count(fmt, max_len);
                    let mut idx = shard as u64;
                    while idx < total {
                        let bytes = token_seq(fmt, idx);
                        let sched = if (idx / unit.shards as u64) % 2 == 0 { Sched::Fixed(1) } else { Sched::Fixed(3) };
                        for from in [Some(fmt), None] {
                            if rec.tracing() {
                                rec.trace_case(|| case_json("tokens", &bytes, from, &sched, None));
                            }
                            if let Err(m) = check_bytes(&bytes, "token_enum", from, &sched, rec) {
                                rec.fail(m, case_json("tokens", &bytes, from, &sched, None));
                                return;
                            }
                        }
                        idx += unit.shards as u64;
                    }
                }
            }
            "adversarial" => {
                for (i, (name, bytes)) in adversarial().into_iter().enumerate() {
                    if i as u32 % unit.shards != shard {
                        continue;
                    }
                    for from in [None, Some(Fmt::Json), Some(Fmt::Msgpack), Some(Fmt::Toml), Some(Fmt::Yaml)] {
                        for sched in [Sched::Full, Sched::Fixed(7)] {
                            if bytes.len() > 100_000 && sched != Sched::Full {
                                continue;
                            }
                            if matches!(from, None | Some(Fmt::Yaml)) && libyaml_quadratic(&name, &bytes) {
                                rec.class("skipped_libyaml_quadratic_flow_depth");
                                continue;
                            }
                            if let Err(m) = check_bytes_named(&bytes, "adversarial", Some(&name), from, &sched, rec) {
                                rec.fail(format!("adversarial input '{}': {}", name, m), json!({"unit": "adversarial", "name": name, "from": opt_name(from), "sched": sched.to_json()}));
                                return;
                            }
                        }
                    }
                }
            }
            "refusal" => {
                let strat = prop_oneof![
                    3 => val_strategy(Shape { depth: 4, size: 14, ..Shape::COMMON }),
                    1 => (scalar_strategy(Shape::COMMON), proptest::collection::vec(any::<bool>(), 1..8)).prop_map(|(v, k)| chain(v, &k)),
                ];
                let cell = std::cell::RefCell::new(None::<J>);
                run_prop(
                    rec,
                    seed,
                    unit.cases,
                    strat,
                    |v| cell.borrow().clone().unwrap_or_else(|| json!({"unit": "refusal_tree", "tree": v.to_json()})),
                    |v, r| {
                        refusal_case(v, r, "refusal").map_err(|(m, j)| {
                            *cell.borrow_mut() = Some(j);
                            m
                        })
                    },
                );
            }
            "cli" => {
                let strat = (
                    bytes_strategy().prop_flat_map(|b| {
                        let origin = b.origin;
                        (Just(b), from_for(origin))
                    }),
                    crate::checks::c01::fmt_strategy(),
                );
                run_prop(
                    rec,
                    seed,
                    unit.cases,
                    strat,
                    |((b, from), to)| json!({"unit": "cli", "bytes": hex(&b.bytes), "text": brief_bytes(&b.bytes), "from": opt_name(*from), "to": to.name()}),
                    |((b, from), to), r| c04_cli_case(&b.bytes, *from, *to, r),
                );
                // adversarial shapes through the binaries (one shard each)
                if !rec.failed() {
                    for (i, (name, bytes)) in adversarial().into_iter().enumerate() {
                        if i as u32 % unit.shards != shard {
                            continue;
                        }
                        for (k, from) in [None, Some(Fmt::Json), Some(Fmt::Msgpack), Some(Fmt::Toml), Some(Fmt::Yaml)].into_iter().enumerate() {
                            let to = FORMATS[(i + k) % 4];
                            if matches!(from, None | Some(Fmt::Yaml)) && libyaml_quadratic(&name, &bytes) {
                                continue;
                            }
                            if let Err(m) = c04_cli_case(&bytes, from, to, rec) {
                                rec.fail(format!("adversarial input '{}': {}", name, m), json!({"unit": "cli_adversarial", "name": name, "from": opt_name(from), "to": to.name()}));
                                return;
                            }
                        }
                    }
                }
            }
            other => panic!("unknown unit {}", other),
        }
    }
    fn replay(&self, case: &J) -> Result<(), String> {
        let unit = case["unit"].as_str().unwrap_or("");
        let mut rec = Recorder::default();
        match unit {
            "adversarial" | "cli_adversarial" => {
                let name = case["name"].as_str().ok_or("no name")?;
                let bytes = adversarial().into_iter().find(|(n, _)| n == name).ok_or("unknown adversarial input")?.1;
                let from = opt_from_name(case["from"].as_str().ok_or("no from")?).ok_or("bad from")?;
                if unit == "cli_adversarial" {
                    let to = Fmt::from_name(case["to"].as_str().ok_or("no to")?).ok_or("bad to")?;
                    return c04_cli_case(&bytes, from, to, &mut rec);
                }
                let sched = Sched::from_json(&case["sched"]).ok_or("bad sched")?;
                match case["to"].as_str().and_then(Fmt::from_name) {
                    Some(to) => total(&bytes, from, to, &sched).map(|_| ()),
                    None => check_bytes(&bytes, "adversarial", from, &sched, &mut rec),
                }
            }
            "refusal_tree" => {
                let tree = Val::from_json(&case["tree"]).ok_or("bad tree")?;
                refusal_case(&tree, &mut rec, "refusal").map_err(|(m, _)| m)
            }
            "cli" => {
                let bytes = unhex(case["bytes"].as_str().ok_or("no bytes")?).ok_or("bad hex")?;
                let from = opt_from_name(case["from"].as_str().ok_or("no from")?).ok_or("bad from")?;
                let to = Fmt::from_name(case["to"].as_str().ok_or("no to")?).ok_or("bad to")?;
                c04_cli_case(&bytes, from, to, &mut rec)
            }
            _ => {
                let bytes = unhex(case["bytes"].as_str().ok_or("no bytes")?).ok_or("bad hex")?;
                let from = opt_from_name(case["from"].as_str().ok_or("no from")?).ok_or("bad from")?;
                let sched = Sched::from_json(&case["sched"]).ok_or("bad sched")?;
                match case["to"].as_str().and_then(Fmt::from_name) {
                    Some(to) => total(&bytes, from, to, &sched).map(|_| ()),
                    None => check_bytes(&bytes, "replay", from, &sched, &mut rec),
                }
            }
        }
    }
}
