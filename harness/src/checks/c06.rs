//! C06 Round trip and idempotence of xt's own output.

use proptest::prelude::*;
use serde_json::{json, Value as J};

use crate::checks::c01::fmt_strategy;
use crate::model::*;
use crate::oracle::*;
use crate::runner::*;
use crate::util::*;
use crate::xtapi::*;

pub struct C06;

#[derive(Clone, Debug)]
pub struct Case {
    pub v: Val,
    pub a: Fmt,
    pub style: Style,
    pub b: Fmt,
    pub mode1: Mode,
    pub mode2: Mode,
}

impl Case {
    fn to_json(&self, unit: &str) -> J {
        json!({"unit": unit, "v": self.v.to_json(), "a": self.a.name(), "b": self.b.name(), "style": self.style.to_json(),
               "mode1": self.mode1.to_json(), "mode2": self.mode2.to_json()})
    }
    fn from_json(j: &J) -> Option<Case> {
        Some(Case {
            v: Val::from_json(&j["v"])?,
            a: Fmt::from_name(j["a"].as_str()?)?,
            b: Fmt::from_name(j["b"].as_str()?)?,
            style: Style::from_json(&j["style"])?,
            mode1: Mode::from_json(&j["mode1"])?,
            mode2: Mode::from_json(&j["mode2"])?,
        })
    }
}

const EXT: Shape = Shape { allow_null: true, ext_float: true, ext_bytes: true, ext_keys: true, depth: 6, size: 40 };

pub fn datetime_strategy() -> BoxedStrategy<Val> {
    proptest::sample::select(vec![
        "1979-05-27T07:32:00Z",
        "1979-05-27T00:32:00-07:00",
        "1979-05-27T00:32:00.999999-07:00",
        "1979-05-27T07:32:00",
        "1979-05-27",
        "07:32:00",
        "00:32:00.5",
        "0001-01-01T00:00:00Z",
        "9999-12-31T23:59:59.999999999+14:00",
    ])
    .prop_map(|s| Val::Datetime(s.to_string()))
    .boxed()
}

fn case_strategy() -> BoxedStrategy<Case> {
    (
        prop_oneof![
            3 => doc_strategy(Shape::COMMON_NULL),
            3 => doc_strategy(EXT),
            1 => (doc_strategy(Shape::COMMON), datetime_strategy(), "[a-z]{1,5}").prop_map(|(v, dt, k)| {
                let mut m = match table_rooted(v) { Val::Map(m) => m, _ => unreachable!() };
                m.retain(|(key, _)| *key != Val::Str(k.clone()));
                m.push((Val::Str(k), dt.clone()));
                m.push((Val::s("dts"), Val::Seq(vec![dt])));
                Val::Map(m)
            }),
        ],
        fmt_strategy(),
        style_strategy(),
        fmt_strategy(),
        mode_strategy(),
        mode_strategy(),
    )
        .prop_map(|(v, a, style, b, mode1, mode2)| Case { v, a, style, b, mode1, mode2 })
        .boxed()
}

/// Makes `v` writable in source format `a` by dropping what `a` cannot spell.
fn fit_source(v: Val, a: Fmt) -> Val {
    fn go(v: Val, a: Fmt) -> Val {
        match v {
            Val::Null if a == Fmt::Toml => Val::Bool(false),
            Val::Bytes(_) | Val::Ext(..) | Val::F32(_) if a != Fmt::Msgpack => Val::s("ext"),
            Val::Datetime(_) if a != Fmt::Toml => Val::s("1979-05-27"),
            Val::Float(f) if !f.is_finite() && a == Fmt::Json => Val::Float(0.5),
            Val::Int(i) if a == Fmt::Toml && i > i64::MAX as i128 => Val::Int(i64::MAX as i128),
            Val::Seq(items) => Val::Seq(items.into_iter().map(|x| go(x, a)).collect()),
            Val::Map(entries) => {
                let mut out: Vec<(Val, Val)> = vec![];
                for (k, x) in entries {
                    let k = if matches!(a, Fmt::Json | Fmt::Toml) && !matches!(k, Val::Str(_)) { Val::Str(k.brief()) } else { go(k, a) };
                    if !out.iter().any(|(k2, _)| *k2 == k) {
                        out.push((k, go(x, a)));
                    }
                }
                Val::Map(out)
            }
            other => other,
        }
    }
    let v = go(v, a);
    if a == Fmt::Toml {
        table_rooted(v)
    } else {
        v
    }
}

/// K7: a 32-bit float is written to JSON/YAML with the shortest digits that
/// identify the f32; read back it is a binary64 and prints differently.
/// Licensed only when the document holds an f32, the target is JSON or YAML,
/// and the two outputs denote the same values once floats are rounded to f32.
fn f32_licensed(model: &Val, b: Fmt, y: &[u8], y2: &[u8]) -> bool {
    fn squash(v: &Val) -> Val {
        match v {
            Val::Float(f) => Val::Float((*f as f32) as f64),
            Val::Seq(s) => Val::Seq(s.iter().map(squash).collect()),
            Val::Map(m) => Val::Map(m.iter().map(|(k, v)| (squash(k), squash(v))).collect()),
            other => other.clone(),
        }
    }
    if !matches!(b, Fmt::Json | Fmt::Yaml) || !is_known_class("C06", "f32_text_output_not_fixed_point") || !model.any(&|n| matches!(n, Val::F32(_))) {
        return false;
    }
    match (read_output(y, b), read_output(y2, b)) {
        (Ok(p), Ok(q)) => p.len() == q.len() && p.iter().zip(&q).all(|(a, b)| squash(a) == squash(b)),
        _ => false,
    }
}

pub fn check_case(c: &Case, rec: &mut Recorder) -> Result<(), String> {
    let v = fit_source(c.v.clone(), c.a);
    if !writable(&v, c.a) {
        rec.reject();
        return Ok(());
    }
    let (x, model) = write_source(&v, c.a, &c.style);
    match read_any(&x, c.a) {
        Ok(d) if d.len() == 1 && d[0] == model => {}
        _ => {
            rec.reject();
            return Ok(());
        }
    }
    let (a, b) = (c.a, c.b);
    let y = run_mode(&x, &c.mode1, Some(a), b);
    if y.verdict.is_panic() {
        return Err(format!("[{} -> {}] panic: {}", a.name(), b.name(), y.verdict.text()));
    }
    let common = model.is_common(true) && representable(&model, b);
    let nontrivial = nontrivial_doc(&model);
    let h = hash_bytes(&[&x, a.name().as_bytes(), b.name().as_bytes()]);
    rec.count(if nontrivial { Some(h) } else { None });
    rec.class(&format!("pair:{}->{}", a.name(), b.name()));
    if !y.verdict.is_ok() {
        rec.class("first_hop_refused");
        if common {
            rec.class("first_hop_refused_common");
        }
        return Ok(());
    }
    if !model.is_common(true) {
        rec.class("extension_value");
    }
    // (1) fixed point: B -> B reproduces y, from a slice and from a reader
    for mode in [Mode::Slice, c.mode2.clone()] {
        let y2 = run_mode(&y.out, &mode, Some(b), b);
        if y2.verdict.is_ok() && y2.out != y.out && f32_licensed(&model, b, &y.out, &y2.out) {
            rec.known("f32_text_output_not_fixed_point");
            continue;
        }
        if !y2.verdict.is_ok() || y2.out != y.out {
            return Err(format!(
                "[{} -> {} -> {} ({})] xt's output is not a fixed point: first {:?}, again {} ",
                a.name(),
                b.name(),
                b.name(),
                mode.class(),
                brief_bytes(&y.out),
                y2.brief()
            ));
        }
    }
    rec.class("fixed_point_checked");
    // (2) round trip for common-model documents
    if common {
        let z = run_mode(&y.out, &c.mode2, Some(b), a);
        let w = run_mode(&x, &c.mode1, Some(a), a);
        if !w.verdict.is_ok() {
            rec.class("identity_refused");
            return Ok(());
        }
        if !z.verdict.is_ok() {
            return Err(format!("[{} -> {} -> {}] the way back failed: {}", a.name(), b.name(), a.name(), z.brief()));
        }
        if b != Fmt::Toml {
            if z.out != w.out {
                return Err(format!(
                    "[{} -> {} -> {}] round trip differs from the direct {} -> {} translation: {:?} vs {:?}",
                    a.name(),
                    b.name(),
                    a.name(),
                    a.name(),
                    a.name(),
                    brief_bytes(&z.out),
                    brief_bytes(&w.out)
                ));
            }
        } else {
            let rz = read_output(&z.out, a).map_err(|e| format!("round-trip output unreadable: {}", e))?;
            let rw = read_output(&w.out, a).map_err(|e| format!("direct output unreadable: {}", e))?;
            let nz: Vec<Val> = rz.iter().map(Val::toml_normal).collect();
            let nw: Vec<Val> = rw.iter().map(Val::toml_normal).collect();
            if nz != nw {
                if is_known_class("C06", "toml_nested_array_with_table_order") && model.has_nested_array_with_table() {
                    rec.known("toml_nested_array_with_table_order");
                } else {
                    return Err(format!(
                        "[{} -> toml -> {}] round trip through TOML changes the value beyond table reordering: {}",
                        a.name(),
                        a.name(),
                        nz.first().zip(nw.first()).map(|(p, q)| p.diff(q)).unwrap_or_default()
                    ));
                }
            }
        }
        rec.class("round_trip_checked");
    }
    rec.sample(|| json!({"a": a.name(), "b": b.name(), "x": brief_bytes(&x), "y": brief_bytes(&y.out)}));
    Ok(())
}

impl Check for C06 {
    fn id(&self) -> &'static str {
        "C06"
    }
    fn level(&self) -> &'static str {
        "exploration"
    }
    fn rule(&self) -> String {
        "Generated: a model document (common model, or with the extensions the source format can spell: nulls, non-string keys, binary, ext, f32, non-finite floats, TOML date-times) written in a drawn spelling of source format A, translated to B under a drawn supply mode. Oracle (1), no reference needed: whenever A->B succeeds with output y, translating y from B to B reproduces y byte for byte, both from a slice and from a drawn reader schedule. Oracle (2), for common-model documents: xt(B->A)(xt(A->B)(x)) is byte-identical to xt(A->A)(x) when B is not TOML; when B is TOML both are read by the independent reader of A and compared up to the TOML normal form. One evaluation = one (document text, A, B). Non-trivial = C01's rule or an extension value; distinct by hash of (text, A, B).".into()
    }
    fn assumptions(&self) -> Vec<String> {
        vec!["a refused first hop is not a violation (counted)".into(), "K5 (toml crate ordering of nested arrays containing tables) is excluded from the TOML value-level round trip by its input-side predicate".into()]
    }
    fn units(&self, tier: Tier) -> Vec<Unit> {
        vec![Unit::gen("gen", 16, tier.pick(40_000, 250_000)), Unit::enumerate("scalar_sweep", 16), Unit::enumerate("wide", 16)]
    }
    fn required_classes(&self, _tier: Tier) -> Vec<&'static str> {
        vec!["fixed_point_checked", "round_trip_checked", "extension_value", "pair:json->toml", "pair:toml->yaml", "pair:msgpack->json", "pair:yaml->msgpack"]
    }
    fn run_unit(&self, unit: &Unit, shard: u32, seed: u64, _tier: Tier, rec: &mut Recorder) {
        match unit.name {
            "gen" => run_prop(rec, seed, unit.cases, case_strategy(), |c| c.to_json("gen"), check_case),
            "wide" => {
                // (lengths above 5000 are left to C01's 'wide' unit: the second pass of
                // the fixed-point oracle makes them expensive here)
                for (i, (name, v)) in crate::checks::c01::wide_values().into_iter().filter(|(n, _)| n.rsplit('_').next().and_then(|d| d.parse::<usize>().ok()).map_or(false, |d| d <= 5000)).enumerate() {
                    if i as u32 % unit.shards != shard {
                        continue;
                    }
                    for a in FORMATS {
                        for b in FORMATS {
                            let c = Case { v: v.clone(), a, b, style: Style::canonical(), mode1: if i % 2 == 0 { Mode::Slice } else { Mode::Reader(crate::sio::Sched::Fixed(8192)) }, mode2: Mode::Reader(crate::sio::Sched::Fixed(4096)) };
                            rec.class("wide");
                            if let Err(m) = check_case(&c, rec) {
                                rec.fail(format!("{}: {}", name, m), c.to_json("wide"));
                                return;
                            }
                        }
                    }
                }
            }
            "scalar_sweep" => {
                let strings = crate::checks::c01::sweep_strings();
                for (i, s) in strings.iter().enumerate() {
                    if i as u32 % unit.shards != shard {
                        continue;
                    }
                    let v = Val::Map(vec![(Val::Str(s.clone()), Val::Seq(vec![Val::Str(s.clone()), Val::Int(1)])), (Val::s("k"), Val::Str(s.clone()))]);
                    for a in FORMATS {
                        for b in FORMATS {
                            let c = Case {
                                v: v.clone(),
                                a,
                                b,
                                style: if i % 2 == 0 { Style::canonical() } else { Style { tape: s.bytes().chain([91, 200, 7]).collect(), cyclic: true } },
                                mode1: if i % 3 == 0 { Mode::Reader(crate::sio::Sched::Fixed(2)) } else { Mode::Slice },
                                mode2: Mode::Reader(crate::sio::Sched::Fixed(1)),
                            };
                            if let Err(m) = check_case(&c, rec) {
                                rec.fail(m, c.to_json("scalar_sweep"));
                                return;
                            }
                        }
                    }
                }
            }
            other => panic!("unknown unit {}", other),
        }
    }
    fn replay(&self, case: &J) -> Result<(), String> {
        check_case(&Case::from_json(case).ok_or("bad case")?, &mut Recorder::default())
    }
    fn confirm_known(&self, k: &Known) -> bool {
        if k.class == "f32_text_output_not_fixed_point" {
            // MessagePack [f32 1e13] -> JSON, then JSON -> JSON
            let x = [0x91u8, 0xca, 0x55, 0x11, 0x84, 0xe7];
            let y = run_slice(&x, Some(Fmt::Msgpack), Fmt::Json);
            let y2 = run_slice(&y.out, Some(Fmt::Json), Fmt::Json);
            return y.verdict.is_ok() && y2.verdict.is_ok() && y.out != y2.out;
        }
        crate::checks::c01::C01.confirm_known(k)
    }
}
