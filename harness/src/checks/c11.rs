//! C11 Errors name their true cause.

use std::fmt;
use std::io::BufReader;

use proptest::prelude::*;
use serde::de::{self, Deserialize, Deserializer, MapAccess, SeqAccess, Visitor};
use serde_json::{json, Value as J};

use crate::checks::c04::plant;
use crate::model::*;
use crate::oracle::*;
use crate::runner::*;
use crate::sio::*;
use crate::util::*;
use crate::xtapi::*;

pub struct C11;

const TF: &str = "translation failed";

// ---------------------------------------------------------------------------
// A sink that drives a parser exactly like xt's transcoder does
// (deserialize_any at every node, same set of supported visits, same
// `expecting` text) but serializes nothing.

pub struct Sink;

struct SinkVisitor;

macro_rules! sink_scalars {
    ($($name:ident($ty:ty);)*) => {
        $(fn $name<E: de::Error>(self, _v: $ty) -> Result<Sink, E> { Ok(Sink) })*
    };
}

impl<'de> Visitor<'de> for SinkVisitor {
    type Value = Sink;
    fn expecting(&self, f: &mut fmt::Formatter) -> fmt::Result {
        f.write_str("any supported value")
    }
    fn visit_unit<E: de::Error>(self) -> Result<Sink, E> {
        Ok(Sink)
    }
    sink_scalars! {
        visit_bool(bool); visit_i8(i8); visit_i16(i16); visit_i32(i32); visit_i64(i64); visit_i128(i128);
        visit_u8(u8); visit_u16(u16); visit_u32(u32); visit_u64(u64); visit_u128(u128);
        visit_f32(f32); visit_f64(f64); visit_char(char); visit_str(&str); visit_bytes(&[u8]);
    }
    fn visit_seq<A: SeqAccess<'de>>(self, mut seq: A) -> Result<Sink, A::Error> {
        while seq.next_element::<Sink>()?.is_some() {}
        Ok(Sink)
    }
    fn visit_map<A: MapAccess<'de>>(self, mut map: A) -> Result<Sink, A::Error> {
        while map.next_key::<Sink>()?.is_some() {
            map.next_value::<Sink>()?;
        }
        Ok(Sink)
    }
}

impl<'de> Deserialize<'de> for Sink {
    fn deserialize<D: Deserializer<'de>>(d: D) -> Result<Sink, D::Error> {
        d.deserialize_any(SinkVisitor)
    }
}

/// The message the source format's parser crate gives for `bytes` when driven
/// the way xt drives it; None when the drive cannot be mirrored or the parser
/// accepts the input.
pub fn parser_message(bytes: &[u8], a: Fmt, mode: &Mode) -> Option<String> {
    match (a, mode) {
        (Fmt::Json, Mode::Slice) => {
            let s = match std::str::from_utf8(bytes) {
                Ok(s) => s,
                Err(e) => return Some(e.to_string()),
            };
            for v in serde_json::Deserializer::from_str(s).into_iter::<Sink>() {
                if let Err(e) = v {
                    return Some(e.to_string());
                }
            }
            None
        }
        (Fmt::Json, Mode::Reader(s)) => {
            let mut de = serde_json::Deserializer::from_reader(BufReader::new(SchedReader::new(bytes, s.clone())));
            while de.end().is_err() {
                if let Err(e) = Sink::deserialize(&mut de) {
                    return Some(e.to_string());
                }
            }
            None
        }
        (Fmt::Toml, _) => {
            let s = match std::str::from_utf8(bytes) {
                Ok(s) => s,
                Err(e) => return Some(e.to_string()),
            };
            Sink::deserialize(toml::Deserializer::new(s)).err().map(|e| e.to_string())
        }
        (Fmt::Yaml, Mode::Slice) => {
            let s = std::str::from_utf8(bytes).ok()?;
            if xt::verif::yaml_detect_encoding(&bytes[..bytes.len().min(4)]) != "utf-8" {
                return None;
            }
            for de in serde_yaml::Deserializer::from_str(s) {
                if let Err(e) = Sink::deserialize(de) {
                    return Some(e.to_string());
                }
            }
            None
        }
        _ => None,
    }
}

/// YAML through the reader route: xt renders libyaml's problem report itself.
/// The text must carry libyaml's description(s) and the position libyaml gave:
/// line and column (1-based, as every message of this program and of the parser
/// crate counts them) or, for reader-level problems that have no mark, the byte
/// offset. The wording around the numbers is not prescribed.
pub fn yaml_reader_message_check(bytes: &[u8], msg: &str) -> Option<Result<(), String>> {
    let s = std::str::from_utf8(bytes).ok()?;
    // a leading BOM is removed by xt's re-encoder before libyaml sees the stream
    if s.starts_with('\u{feff}') || xt::verif::yaml_detect_encoding(&bytes[..bytes.len().min(4)]) != "utf-8" {
        return None;
    }
    let p = crate::rd_yaml::libyaml_problem(bytes)?;
    let numbers = |t: &str| -> Vec<u64> {
        let mut out = vec![];
        let mut cur = String::new();
        for ch in t.chars().chain(std::iter::once(' ')) {
            if ch.is_ascii_digit() {
                cur.push(ch);
            } else if !cur.is_empty() {
                if let Ok(n) = cur.parse() {
                    out.push(n);
                }
                cur.clear();
            }
        }
        out
    };
    let at = match msg.find(p.problem.as_str()) {
        Some(i) => i,
        None => return Some(Err(format!("the error text {:?} does not carry the parser's message {:?}", msg, p.problem))),
    };
    let after_problem = &msg[at + p.problem.len()..];
    let (own, rest) = match p.context.as_deref().and_then(|c| after_problem.find(c).map(|i| (i, c.len()))) {
        Some((i, l)) => (&after_problem[..i], Some(&after_problem[i + l..])),
        None => (after_problem, None),
    };
    let own_numbers = numbers(own);
    let ok = if p.line != 0 || p.column != 0 {
        own_numbers.windows(2).any(|w| w[0] == p.line + 1 && w[1] == p.column + 1)
    } else {
        let off = if p.index > 0 { p.index } else { p.offset };
        own_numbers.contains(&off)
    };
    if !ok {
        return Some(Err(format!(
            "the error text {:?} does not carry the position the parser gave for {:?} (line {} column {}, byte {})",
            msg,
            p.problem,
            p.line + 1,
            p.column + 1,
            if p.index > 0 { p.index } else { p.offset }
        )));
    }
    if let Some(c) = &p.context {
        match rest {
            None => return Some(Err(format!("the error text {:?} does not carry the parser's context {:?}", msg, c))),
            Some(rest) => {
                if (p.context_line != 0 || p.context_column != 0) && !numbers(rest).windows(2).any(|w| w[0] == p.context_line + 1 && w[1] == p.context_column + 1) {
                    return Some(Err(format!("the error text {:?} does not carry the position of the parser's context {:?} (line {} column {})", msg, c, p.context_line + 1, p.context_column + 1)));
                }
            }
        }
    }
    Some(Ok(()))
}

// ---------------------------------------------------------------------------
// Family 1: syntax errors

#[derive(Clone, Debug)]
enum Damage {
    Delete(u16),
    Insert(u16, u8),
    Replace(u16, u8),
    Truncate(u16),
    Token(u16, u16),
    Reserved(u16),
}

#[derive(Clone, Debug)]
struct Syn {
    v: Val,
    a: Fmt,
    style: Style,
    damage: Damage,
    mode: Mode,
}

fn at(frac: u16, len: usize) -> usize {
    (frac as usize * len) >> 16
}

fn damaged(text: &[u8], a: Fmt, d: &Damage) -> Vec<u8> {
    let mut b = text.to_vec();
    if b.is_empty() {
        return b;
    }
    match d {
        Damage::Delete(i) => {
            b.remove(at(*i, b.len()));
        }
        Damage::Insert(i, x) => {
            let p = at(*i, b.len() + 1);
            b.insert(p, *x);
        }
        Damage::Replace(i, x) => {
            let p = at(*i, b.len());
            b[p] = *x;
        }
        Damage::Truncate(i) => {
            let p = at(*i, b.len());
            b.truncate(p);
        }
        Damage::Token(i, t) => {
            let toks = crate::corpus::tokens(a);
            let tok = toks[(*t as usize * toks.len()) >> 16];
            let p = at(*i, b.len() + 1);
            for (k, x) in tok.iter().enumerate() {
                b.insert(p + k, *x);
            }
        }
        Damage::Reserved(i) => {
            let p = at(*i, b.len());
            b[p] = 0xc1;
        }
    }
    b
}

fn syn_strategy() -> BoxedStrategy<Syn> {
    (doc_strategy(Shape { depth: 5, size: 30, ..Shape::COMMON }), crate::checks::c01::fmt_strategy(), style_strategy(), any::<u16>(), any::<u8>(), any::<u16>(), 0u8..6, mode_strategy())
        .prop_map(|(v, a, style, i, x, t, kind, mode)| {
            let damage = if a == Fmt::Msgpack {
                // only damage that cannot turn the well-formed prefix into something a target refuses
                let _ = kind;
                Damage::Truncate(i)
            } else {
                match kind {
                    0 => Damage::Delete(i),
                    1 => Damage::Insert(i, x),
                    2 => Damage::Replace(i, x),
                    3 => Damage::Truncate(i),
                    _ => Damage::Token(i, t),
                }
            };
            Syn { v, a, style, damage, mode }
        })
        .boxed()
}

fn syn_json(c: &Syn, bytes: &[u8]) -> J {
    json!({"unit": "syntax", "bytes": hex(bytes), "text": brief_bytes(bytes), "a": c.a.name(), "mode": c.mode.to_json()})
}

/// Oracle for one malformed input.
pub fn check_syntax(bytes: &[u8], a: Fmt, mode: &Mode, rec: &mut Recorder) -> Result<(), String> {
    // malformed according to the independent reader?
    if read_any(bytes, a).is_ok() {
        rec.class("syntax:still_valid");
        return Ok(());
    }
    // targets that accept everything the well-formed prefix can contain
    let targets: &[Fmt] = match a {
        Fmt::Json | Fmt::Toml | Fmt::Msgpack => &[Fmt::Json, Fmt::Msgpack, Fmt::Yaml],
        Fmt::Yaml => &[Fmt::Msgpack, Fmt::Yaml],
    };
    let mut texts: Vec<(Fmt, String)> = vec![];
    for to in targets {
        let o = run_mode(bytes, mode, Some(a), *to);
        match o.verdict {
            Verdict::Ok => {
                // the YAML parser xt uses is libyaml; what libyaml itself rejects
                // cannot have been translated
                if a == Fmt::Yaml && std::str::from_utf8(bytes).is_ok() && xt::verif::yaml_detect_encoding(&bytes[..bytes.len().min(4)]) == "utf-8" {
                    if let Some(p) = crate::rd_yaml::libyaml_problem(bytes) {
                        return Err(format!("[yaml {} -> {}] the YAML parser rejects this input ({:?} at line {} column {}), but the translation reported success (output {:?})", mode.class(), to.name(), p.problem, p.line + 1, p.column + 1, brief_bytes(&o.out)));
                    }
                }
                rec.class("syntax:accepted_by_xt");
                return Ok(());
            }
            Verdict::Panic(p) => return Err(format!("panic: {}", p)),
            Verdict::Err(e) => texts.push((*to, e)),
        }
    }
    for (to, e) in &texts {
        if e.contains(TF) {
            return Err(format!("[{} {} -> {}] malformed input, but the error mentions '{}': {:?}", a.name(), mode.class(), to.name(), TF, e));
        }
    }
    for w in texts.windows(2) {
        if w[0].1 != w[1].1 {
            return Err(format!(
                "[{} {}] malformed input, but the error text depends on the output format: -> {}: {:?} / -> {}: {:?}",
                a.name(),
                mode.class(),
                w[0].0.name(),
                w[0].1,
                w[1].0.name(),
                w[1].1
            ));
        }
    }
    if let Some(msg) = parser_message(bytes, a, mode) {
        if msg != texts[0].1 {
            return Err(format!("[{} {}] the error text {:?} is not the parser's own message {:?}", a.name(), mode.class(), texts[0].1, msg));
        }
        rec.class("syntax:matches_parser_message");
    }
    if a == Fmt::Yaml && matches!(mode, Mode::Reader(_)) {
        if let Some(r) = yaml_reader_message_check(bytes, &texts[0].1) {
            r.map_err(|m| format!("[yaml {}] {}", mode.class(), m))?;
            rec.class("syntax:yaml_reader_position_checked");
        }
    }
    rec.count(Some(hash_bytes(&[bytes, a.name().as_bytes(), mode.class().as_bytes()])));
    rec.class(&format!("syntax:{}", a.name()));
    rec.sample(|| json!({"family": "syntax", "a": a.name(), "mode": mode.class(), "input": brief_bytes(bytes), "error": texts[0].1}));
    Ok(())
}

// ---------------------------------------------------------------------------
// Family 2: one unrepresentable value at any node path

/// A leaf that serializes as the given model value (for running target
/// serializers standalone).
struct Leaf<'a>(&'a Val);

impl serde::Serialize for Leaf<'_> {
    fn serialize<S: serde::Serializer>(&self, s: S) -> Result<S::Ok, S::Error> {
        use serde::ser::{SerializeMap, SerializeSeq};
        match self.0 {
            Val::Null => s.serialize_unit(),
            Val::Bool(b) => s.serialize_bool(*b),
            Val::Int(i) if *i < 0 => s.serialize_i64(*i as i64),
            Val::Int(i) => s.serialize_u64(*i as u64),
            Val::Float(f) => s.serialize_f64(*f),
            Val::F32(f) => s.serialize_f32(*f),
            Val::Str(x) => s.serialize_str(x),
            Val::Bytes(b) => s.serialize_bytes(b),
            Val::Seq(items) => {
                let mut q = s.serialize_seq(Some(items.len()))?;
                for i in items {
                    q.serialize_element(&Leaf(i))?;
                }
                q.end()
            }
            Val::Map(entries) => {
                let mut m = s.serialize_map(Some(entries.len()))?;
                for (k, v) in entries {
                    m.serialize_entry(&Leaf(k), &Leaf(v))?;
                }
                m.end()
            }
            other => Err(serde::ser::Error::custom(format!("unsupported leaf {:?}", other))),
        }
    }
}

/// Reasons a target serializer gives for refusing `leaf` (in key position when
/// `as_key`), collected by running the serializer crates standalone.
pub fn reasons(leaf: &Val, as_key: bool, to: Fmt) -> Vec<String> {
    let wrapped = if as_key { Val::Map(vec![(leaf.clone(), Val::Int(1))]) } else { Val::Seq(vec![leaf.clone()]) };
    let mut out = vec![];
    match to {
        Fmt::Json => {
            if let Err(e) = serde_json::to_vec(&Leaf(&wrapped)) {
                out.push(e.to_string());
            }
        }
        Fmt::Yaml => {
            if let Err(e) = serde_yaml::to_string(&Leaf(&wrapped)) {
                out.push(e.to_string());
            }
        }
        Fmt::Msgpack => {
            if let Err(e) = rmp_serde::to_vec(&Leaf(&wrapped)) {
                out.push(e.to_string());
            }
        }
        Fmt::Toml => {
            // both construction routes xt uses
            let table = Val::Map(vec![(Val::s("k"), wrapped.clone())]);
            if let Err(e) = toml::Value::try_from(Leaf(&table)) {
                out.push(e.to_string());
            }
            // Deserialize route through the three source parsers' error types
            let j = crate::wr_msgpack::write_doc(&table, &Style::canonical());
            let mut de = rmp_serde::Deserializer::from_read_ref(&j);
            if let Err(e) = toml::Value::deserialize(&mut de) {
                out.push(e.to_string());
            }
            if crate::wr_yaml::supports(&table) {
                let y = crate::wr_yaml::write_doc(&table, &Style::canonical());
                for de in serde_yaml::Deserializer::from_str(&y) {
                    if let Err(e) = toml::Value::deserialize(de) {
                        // strip serde_yaml's path prefix and position
                        out.push(e.to_string());
                    }
                }
            }
            if crate::wr_json::supports(&table) {
                let t = crate::wr_json::write_doc(&table, &Style::canonical());
                let mut de = serde_json::Deserializer::from_str(&t);
                if let Err(e) = toml::Value::deserialize(&mut de) {
                    out.push(e.to_string());
                }
            }
        }
    }
    // keep the reason proper: drop positions and path prefixes the standalone
    // run attaches ("k[0]: ... at line 1 column 9")
    out.iter()
        .map(|m| {
            let m = m.split(" at line ").next().unwrap_or(m);
            let m = match m.find("invalid type") {
                Some(i) => &m[i..],
                None => m,
            };
            m.trim().to_string()
        })
        .filter(|m| !m.is_empty())
        .collect()
}

#[derive(Clone, Debug)]
struct Unrep {
    tree: Val,
    a: Fmt,
    style: Style,
    mode: Mode,
}

fn unrep_kinds() -> Vec<(&'static str, Val, bool, Vec<Fmt>)> {
    // (name, leaf, key position, targets that refuse it)
    vec![
        ("null_value_to_toml", Val::Null, false, vec![Fmt::Toml]),
        ("oversized_int_to_toml", Val::Int(u64::MAX as i128), false, vec![Fmt::Toml]),
        ("null_key_to_json", Val::Null, true, vec![Fmt::Json]),
        ("seq_key_to_json", Val::Seq(vec![Val::Int(1)]), true, vec![Fmt::Json]),
        ("map_key_to_json", Val::Map(vec![(Val::s("a"), Val::Int(1))]), true, vec![Fmt::Json]),
        ("bytes_to_yaml", Val::Bytes(vec![1, 2, 3]), false, vec![Fmt::Yaml]),
    ]
}

fn check_unrep(c: &Unrep, rec: &mut Recorder) -> Result<(), (String, J)> {
    // the tree itself must be representable everywhere (no oversized ints)
    let tree = strip_for_toml(c.tree.clone());
    let c = &Unrep { tree, ..c.clone() };
    let n = c.tree.node_count();
    for (name, leaf, as_key, targets) in unrep_kinds() {
        for idx in 0..n {
            let mut i = idx;
            let mut hit_key = false;
            let doc = plant(&c.tree, &mut i, &leaf, &mut hit_key);
            if hit_key != as_key {
                continue;
            }
            let a = c.a;
            if !writable(&doc, a) {
                continue;
            }
            let (text, model) = write_source(&doc, a, &c.style);
            if !matches!(read_any(&text, a), Ok(d) if d.len() == 1 && d[0] == model) {
                rec.reject();
                continue;
            }
            for to in &targets {
                if *to == Fmt::Toml && !matches!(doc, Val::Map(_)) {
                    continue; // the root check would speak first
                }
                let cj = json!({"unit": "unrep", "bytes": hex(&text), "text": brief_bytes(&text), "a": a.name(), "to": to.name(), "mode": c.mode.to_json(), "kind": name});
                let o = run_mode(&text, &c.mode, Some(a), *to);
                let e = match o.verdict {
                    Verdict::Err(e) => e,
                    Verdict::Ok => return Err((format!("[{} -> {}] {} at node {} was accepted", a.name(), to.name(), name, idx), cj)),
                    Verdict::Panic(p) => return Err((format!("panic: {}", p), cj)),
                };
                let rs = reasons(&leaf, as_key, *to);
                if rs.is_empty() {
                    rec.notes.push(format!("no standalone reason for {} -> {}", name, to.name()));
                    continue;
                }
                if !rs.iter().any(|r| e.contains(r.as_str())) {
                    return Err((
                        format!("[{} {} -> {}] {} at node {}: the error {:?} contains none of the reasons the target serializer gives: {:?}", a.name(), c.mode.class(), to.name(), name, idx, e, rs),
                        cj,
                    ));
                }
                let depth_nontrivial = idx >= 1;
                rec.count(if depth_nontrivial { Some(hash_bytes(&[&text, to.name().as_bytes(), name.as_bytes()])) } else { None });
                rec.class(&format!("unrep:{}", name));
                if hit_key {
                    rec.class("unrep:key_position");
                }
                rec.sample(|| json!({"family": "unrepresentable", "kind": name, "a": a.name(), "to": to.name(), "node": idx, "error": e}));
            }
        }
    }
    Ok(())
}

// ---------------------------------------------------------------------------
// Family 3: writer failing at byte k

fn classify_failing_write(buf: &[u8], to: Fmt) -> &'static str {
    if to == Fmt::Msgpack {
        return match buf.first() {
            Some(0x80..=0x9f | 0xdc..=0xdf) => "w:collection_header",
            Some(0xa0..=0xbf | 0xd9..=0xdb) => "w:string_header",
            _ => "w:scalar_or_payload",
        };
    }
    match buf {
        b"," | b":" | b", " | b": " => "w:separator",
        b"[" | b"]" | b"{" | b"}" => "w:bracket",
        b"\n" | b"---\n" => "w:newline_or_marker",
        b"\"" | b"\\\"" | b"\\n" | b"\\\\" => "w:string_piece",
        _ if buf.len() > 64 => "w:chunk",
        _ => "w:scalar_or_text",
    }
}

fn msgpack_write_failure_phrases() -> Vec<String> {
    let mut out = vec![];
    for v in [Val::Int(1), Val::Int(70000), Val::s("abcdefgh"), Val::Seq(vec![Val::Int(1)]), Val::Float(0.5), Val::Null] {
        let full = rmp_serde::to_vec(&Leaf(&v)).unwrap_or_default();
        for k in 0..full.len() {
            let mut w = FaultWriter::new(Some(k), None);
            if let Err(e) = rmp_serde::encode::write(&mut w, &Leaf(&v)) {
                let m = e.to_string();
                if !out.contains(&m) {
                    out.push(m);
                }
            }
        }
    }
    out
}

#[derive(Clone, Debug)]
struct WFault {
    v: Val,
    a: Fmt,
    to: Fmt,
    style: Style,
    mode: Mode,
}

fn check_wfault(c: &WFault, rec: &mut Recorder) -> Result<(), (String, J)> {
    let v = project_source(c.v.clone(), c.a);
    if !writable(&v, c.a) || !representable(&(if c.to == Fmt::Toml { strip_for_toml(table_rooted(v.clone())) } else { v.clone() }), c.to) {
        rec.reject();
        return Ok(());
    }
    let v = if c.to == Fmt::Toml { strip_for_toml(table_rooted(v)) } else { v };
    let (text, _) = write_source(&v, c.a, &c.style);
    let clean = run_mode(&text, &c.mode, Some(c.a), c.to);
    if !clean.verdict.is_ok() {
        rec.class("wfault:fault_free_run_refused");
        return Ok(());
    }
    let total = clean.out.len();
    let phrases = if c.to == Fmt::Msgpack { msgpack_write_failure_phrases() } else { vec![] };
    // every k for small outputs, a spread of k for larger ones
    let ks: Vec<usize> = if total <= 160 { (0..total).collect() } else { (0..160).map(|i| i * total / 160).collect() };
    for k in ks {
        let mut w = FaultWriter::new(Some(k), None);
        let verdict = match &c.mode {
            Mode::Slice => guarded(|| xt::translate_slice(&text, Some(c.a.xt()), c.to.xt(), &mut w)),
            Mode::Reader(s) => guarded(|| xt::translate_reader(SchedReader::new(&text, s.clone()), Some(c.a.xt()), c.to.xt(), &mut w)),
        };
        let cj = json!({"unit": "wfault", "bytes": hex(&text), "text": brief_bytes(&text), "a": c.a.name(), "to": c.to.name(), "mode": c.mode.to_json(), "k": k});
        let e = match verdict {
            Verdict::Err(e) => e,
            Verdict::Ok => return Err((format!("[{} -> {}] the writer failed at byte {} of {} but the translation reported success", c.a.name(), c.to.name(), k, total), cj)),
            Verdict::Panic(p) => return Err((format!("panic with a writer failing at byte {}: {}", k, p), cj)),
        };
        let marker = format!("INJECTED-W-{}", k);
        let ok = e.contains(&marker) || (c.to == Fmt::Msgpack && phrases.iter().any(|p| e.contains(p.as_str())));
        if !ok {
            return Err((
                format!(
                    "[{} {} -> {}] the writer failed at byte {} of {} (on write of {:?}) but the error text does not carry the cause: {:?}",
                    c.a.name(),
                    c.mode.class(),
                    c.to.name(),
                    k,
                    total,
                    w.failing_buf.as_deref().map(brief_bytes),
                    e
                ),
                cj,
            ));
        }
        // a writer with no room left answers Ok(0); the reason is then the one the
        // standard library gives for an incomplete write
        {
            let mut w = FaultWriter::full_after(k);
            let verdict = match &c.mode {
                Mode::Slice => guarded(|| xt::translate_slice(&text, Some(c.a.xt()), c.to.xt(), &mut w)),
                Mode::Reader(s) => guarded(|| xt::translate_reader(SchedReader::new(&text, s.clone()), Some(c.a.xt()), c.to.xt(), &mut w)),
            };
            let mut cj = cj.clone();
            cj["full"] = json!(true);
            let reason = std::io::Write::write_all(&mut FaultWriter::full_after(0), b"x").expect_err("a full writer refuses").to_string();
            match verdict {
                Verdict::Err(e) => {
                    if !(e.contains(&reason) || (c.to == Fmt::Msgpack && phrases.iter().any(|p| e.contains(p.as_str())))) {
                        return Err((format!("[{} {} -> {}] the writer was full at byte {} of {} but the error text does not carry the cause ({:?}): {:?}", c.a.name(), c.mode.class(), c.to.name(), k, total, reason, e), cj));
                    }
                }
                Verdict::Ok => return Err((format!("[{} -> {}] the writer was full at byte {} of {} but the translation reported success", c.a.name(), c.to.name(), k, total), cj)),
                Verdict::Panic(p) => return Err((format!("panic with a writer full at byte {}: {}", k, p), cj)),
            }
            rec.class("wfault:full_writer");
        }
        let class = classify_failing_write(w.failing_buf.as_deref().unwrap_or(b""), c.to);
        let nontrivial = k > 0;
        rec.count(if nontrivial { Some(hash_bytes(&[&text, c.to.name().as_bytes(), &(k as u64).to_le_bytes(), c.mode.class().as_bytes()])) } else { None });
        rec.class(class);
        rec.class(&format!("wfault:{}", c.to.name()));
    }
    rec.sample(|| json!({"family": "writer_fault", "a": c.a.name(), "to": c.to.name(), "mode": c.mode.class(), "output_len": total, "input": brief_bytes(&text)}));
    Ok(())
}

impl Check for C11 {
    fn id(&self) -> &'static str {
        "C11"
    }
    fn level(&self) -> &'static str {
        "fault_enumeration"
    }
    fn rule(&self) -> String {
        "Three planted-defect families over generated common-model documents. 'syntax': one byte/token deleted, inserted, replaced or the text truncated at a drawn position (MessagePack: truncation and reserved marker only); kept when the independent reader rejects the text; oracle: xt fails with the same text for every streaming target that accepts all values of the source, the text does not contain 'translation failed', and (JSON slice/reader, TOML, YAML slice) equals the message the same parser crate gives when driven by a harness sink visitor that mirrors xt's drive. 'unrep': one value the target must refuse (null or u64>i64::MAX to TOML; null/sequence/map key to JSON; binary to YAML) planted at EVERY node path of the tree; oracle: Err whose text contains a reason obtained at run time by running the target serializer standalone on that leaf (TOML: by both construction routes). 'wfault': the writer accepts exactly k bytes and then fails, for every k below the fault-free output length (all k up to 160, 160 spread values beyond), all pairs and supply modes; oracle: Err whose text contains INJECTED-W-k (MessagePack target: the phrase rmp_serde prints for a failed write, obtained from standalone failing writes); the failing write is classified (separator, bracket, string piece, scalar, newline/marker, chunk); the same for a writer that answers Ok(0) once k bytes were taken (cause = the standard library's incomplete-write message, obtained at run time). One evaluation = one planted defect; non-trivial = defect not at offset/node 0; distinct by hash of (text, target, position).".into()
    }
    fn assumptions(&self) -> Vec<String> {
        vec![
            "positions in messages are not required to be stream-relative (the statement does not say so); MessagePack slice mode is only checked for target-independence and absence of 'translation failed'; YAML reader mode must carry libyaml's description(s) and positions as libyaml reports them for the same text".into(),
            "an input the independent reader rejects but xt accepts is skipped, except for YAML, where the independent reader is libyaml itself".into(),
        ]
    }
    fn units(&self, tier: Tier) -> Vec<Unit> {
        vec![Unit::gen("syntax", 16, tier.pick(25_000, 200_000)), Unit::gen("unrep", 8, tier.pick(500, 5000)), Unit::gen("wfault", 16, tier.pick(2000, 20_000))]
    }
    fn required_classes(&self, _tier: Tier) -> Vec<&'static str> {
        vec![
            "syntax:json", "syntax:yaml", "syntax:toml", "syntax:msgpack", "syntax:matches_parser_message", "unrep:null_value_to_toml", "unrep:oversized_int_to_toml", "unrep:null_key_to_json", "unrep:seq_key_to_json",
            "unrep:bytes_to_yaml", "unrep:key_position", "w:separator", "w:bracket", "w:string_piece", "w:newline_or_marker", "w:collection_header", "wfault:json", "wfault:yaml", "wfault:toml", "wfault:msgpack",
        ]
    }
    fn run_unit(&self, unit: &Unit, _shard: u32, seed: u64, _tier: Tier, rec: &mut Recorder) {
        match unit.name {
            "syntax" => {
                let cell = std::cell::RefCell::new(None::<J>);
                run_prop(
                    rec,
                    seed,
                    unit.cases,
                    syn_strategy(),
                    |c| cell.borrow().clone().unwrap_or_else(|| json!({"unit": "syntax_gen", "v": c.v.to_json()})),
                    |c, r| {
                        let v = project_source(c.v.clone(), c.a);
                        if !writable(&v, c.a) {
                            r.reject();
                            return Ok(());
                        }
                        let (text, _) = write_source(&v, c.a, &c.style);
                        let bytes = damaged(&text, c.a, &c.damage);
                        *cell.borrow_mut() = Some(syn_json(c, &bytes));
                        let res = check_syntax(&bytes, c.a, &c.mode, r);
                        if res.is_ok() {
                            *cell.borrow_mut() = None;
                        }
                        res
                    },
                );
            }
            "unrep" => {
                let strat = (val_strategy(Shape { depth: 4, size: 12, ..Shape::COMMON }), prop_oneof![Just(Fmt::Json), Just(Fmt::Yaml), Just(Fmt::Msgpack)], style_strategy(), mode_strategy())
                    .prop_map(|(tree, a, style, mode)| Unrep { tree, a, style, mode });
                let cell = std::cell::RefCell::new(None::<J>);
                run_prop(
                    rec,
                    seed,
                    unit.cases,
                    strat,
                    |c| cell.borrow().clone().unwrap_or_else(|| json!({"unit": "unrep_gen", "tree": c.tree.to_json()})),
                    |c, r| {
                        check_unrep(c, r).map_err(|(m, j)| {
                            *cell.borrow_mut() = Some(j);
                            m
                        })
                    },
                );
            }
            "wfault" => {
                let strat = (
                    prop_oneof![3 => val_strategy(Shape { depth: 4, size: 10, ..Shape::COMMON }), 1 => doc_strategy(Shape::COMMON)],
                    crate::checks::c01::fmt_strategy(),
                    crate::checks::c01::fmt_strategy(),
                    style_strategy(),
                    mode_strategy(),
                )
                    .prop_map(|(v, a, to, style, mode)| WFault { v, a, to, style, mode });
                let cell = std::cell::RefCell::new(None::<J>);
                run_prop(
                    rec,
                    seed,
                    unit.cases,
                    strat,
                    |c| cell.borrow().clone().unwrap_or_else(|| json!({"unit": "wfault_gen", "v": c.v.to_json()})),
                    |c, r| {
                        check_wfault(c, r).map_err(|(m, j)| {
                            *cell.borrow_mut() = Some(j);
                            m
                        })
                    },
                );
            }
            other => panic!("unknown unit {}", other),
        }
    }
    fn replay(&self, case: &J) -> Result<(), String> {
        let mut rec = Recorder::default();
        let bytes = unhex(case["bytes"].as_str().ok_or("no bytes")?).ok_or("bad hex")?;
        let a = Fmt::from_name(case["a"].as_str().ok_or("no a")?).ok_or("bad a")?;
        let mode = Mode::from_json(&case["mode"]).ok_or("bad mode")?;
        match case["unit"].as_str().unwrap_or("") {
            "syntax" => check_syntax(&bytes, a, &mode, &mut rec),
            "unrep" => {
                let to = Fmt::from_name(case["to"].as_str().ok_or("no to")?).ok_or("bad to")?;
                let kind = case["kind"].as_str().unwrap_or("");
                let (_, leaf, as_key, _) = unrep_kinds().into_iter().find(|k| k.0 == kind).ok_or("unknown kind")?;
                let o = run_mode(&bytes, &mode, Some(a), to);
                match o.verdict {
                    Verdict::Err(e) => {
                        let rs = reasons(&leaf, as_key, to);
                        if rs.iter().any(|r| e.contains(r.as_str())) {
                            Ok(())
                        } else {
                            Err(format!("the error {:?} contains none of the reasons {:?}", e, rs))
                        }
                    }
                    other => Err(format!("expected a refusal, got {}", other.brief())),
                }
            }
            "wfault" => {
                let to = Fmt::from_name(case["to"].as_str().ok_or("no to")?).ok_or("bad to")?;
                let k = case["k"].as_u64().ok_or("no k")? as usize;
                let full = case["full"].as_bool().unwrap_or(false);
                let mut w = if full { FaultWriter::full_after(k) } else { FaultWriter::new(Some(k), None) };
                let verdict = match &mode {
                    Mode::Slice => guarded(|| xt::translate_slice(&bytes, Some(a.xt()), to.xt(), &mut w)),
                    Mode::Reader(s) => guarded(|| xt::translate_reader(SchedReader::new(&bytes, s.clone()), Some(a.xt()), to.xt(), &mut w)),
                };
                let reason = if full { std::io::Write::write_all(&mut FaultWriter::full_after(0), b"x").expect_err("a full writer refuses").to_string() } else { format!("INJECTED-W-{}", k) };
                match verdict {
                    Verdict::Err(e) => {
                        let phrases = if to == Fmt::Msgpack { msgpack_write_failure_phrases() } else { vec![] };
                        if e.contains(&reason) || phrases.iter().any(|p| e.contains(p.as_str())) {
                            Ok(())
                        } else {
                            Err(format!("writer failed at byte {} but the error text does not carry the cause: {:?}", k, e))
                        }
                    }
                    other => Err(format!("writer failed at byte {} but the result was {}", k, other.brief())),
                }
            }
            _ => Err("unknown unit".into()),
        }
    }
}
