//! C07 YAML in UTF-16/UTF-32 translates exactly like the same text in UTF-8.

use std::io::{BufReader, Read};

use proptest::prelude::*;
use serde_json::{json, Value as J};

use crate::model::*;
use crate::runner::*;
use crate::sio::*;
use crate::util::*;
use crate::xtapi::*;

pub struct C07;

pub const ENCODINGS: [&str; 4] = ["utf-16be", "utf-16le", "utf-32be", "utf-32le"];

pub fn encode_units16(units: &[u16], enc: &str) -> Vec<u8> {
    let mut out = Vec::with_capacity(units.len() * 2);
    for u in units {
        if enc == "utf-16be" {
            out.extend(u.to_be_bytes());
        } else {
            out.extend(u.to_le_bytes());
        }
    }
    out
}

pub fn encode_units32(units: &[u32], enc: &str) -> Vec<u8> {
    let mut out = Vec::with_capacity(units.len() * 4);
    for u in units {
        if enc == "utf-32be" {
            out.extend(u.to_be_bytes());
        } else {
            out.extend(u.to_le_bytes());
        }
    }
    out
}

pub fn encode_text(text: &str, enc: &str, bom: bool) -> Vec<u8> {
    let mut s = String::new();
    if bom {
        s.push('\u{feff}');
    }
    s.push_str(text);
    if enc.starts_with("utf-16") {
        let units: Vec<u16> = s.encode_utf16().collect();
        encode_units16(&units, enc)
    } else {
        let units: Vec<u32> = s.chars().map(|c| c as u32).collect();
        encode_units32(&units, enc)
    }
}

/// Reference decoder (std's `decode_utf16` / `char::from_u32`). Returns the
/// text with a leading BOM stripped; on ill-formed input returns the longest
/// well-formed prefix and a description.
pub fn decode_reference(bytes: &[u8], enc: &str) -> Result<String, (String, String)> {
    let mut out = String::new();
    let mut err = None;
    if enc.starts_with("utf-16") {
        let n = bytes.len() / 2;
        let units: Vec<u16> = (0..n)
            .map(|i| {
                let b = [bytes[2 * i], bytes[2 * i + 1]];
                if enc == "utf-16be" {
                    u16::from_be_bytes(b)
                } else {
                    u16::from_le_bytes(b)
                }
            })
            .collect();
        for r in char::decode_utf16(units.iter().copied()) {
            match r {
                Ok(c) => out.push(c),
                Err(e) => {
                    err = Some(format!("unpaired surrogate {:04x}", e.unpaired_surrogate()));
                    break;
                }
            }
        }
        if err.is_none() && bytes.len() % 2 != 0 {
            err = Some("truncated code unit".into());
        }
    } else {
        let n = bytes.len() / 4;
        for i in 0..n {
            let b = [bytes[4 * i], bytes[4 * i + 1], bytes[4 * i + 2], bytes[4 * i + 3]];
            let u = if enc == "utf-32be" { u32::from_be_bytes(b) } else { u32::from_le_bytes(b) };
            match char::from_u32(u) {
                Some(c) => out.push(c),
                None => {
                    err = Some(format!("invalid scalar value {:x}", u));
                    break;
                }
            }
        }
        if err.is_none() && bytes.len() % 4 != 0 {
            err = Some("truncated code unit".into());
        }
    }
    let stripped = out.strip_prefix('\u{feff}').map(String::from).unwrap_or(out);
    match err {
        None => Ok(stripped),
        Some(e) => Err((stripped, e)),
    }
}

/// Drives the re-encoder over `bytes` with the given inner schedule, BufReader
/// capacity and read sizes. Returns the bytes produced and the final error.
pub fn run_encoder(bytes: &[u8], inner: &Sched, cap: usize, read_sizes: &[usize]) -> (Vec<u8>, Option<String>) {
    let src = BufReader::with_capacity(cap.max(1), SchedReader::new(bytes, inner.clone()));
    let mut enc = match xt::verif::yaml_encoder(src) {
        Ok(e) => e,
        Err(e) => return (vec![], Some(e.to_string())),
    };
    let mut out = Vec::with_capacity(bytes.len() + 16);
    let maxsize = read_sizes.iter().copied().max().unwrap_or(1).max(1);
    let mut buf = vec![0u8; maxsize];
    let mut i = 0;
    loop {
        let n = read_sizes[i % read_sizes.len()].max(1);
        i += 1;
        match enc.read(&mut buf[..n]) {
            Ok(0) => return (out, None),
            Ok(k) => {
                if k > n {
                    return (out, Some(format!("read returned {} for a {}-byte buffer", k, n)));
                }
                out.extend_from_slice(&buf[..k]);
            }
            Err(e) => return (out, Some(e.to_string())),
        }
    }
}

fn all_scalars(shuffled: bool) -> String {
    let mut chars: Vec<char> = (0u32..=0x10ffff).filter_map(char::from_u32).collect();
    if shuffled {
        let n = chars.len();
        let mut out = Vec::with_capacity(n);
        // stride permutation (n = 1,112,064 = 2^10 * 3 * 362; 7919 is coprime)
        let mut i = 0usize;
        for _ in 0..n {
            out.push(chars[i]);
            i = (i + 7919) % n;
        }
        chars = out;
    }
    let mut s = String::with_capacity(chars.len() * 4 + 1);
    s.push_str("ab"); // BOM-less detection needs leading ASCII characters ("a\0" in UTF-16LE would read as UTF-32LE)
    s.extend(chars);
    s
}

struct Combo {
    enc: &'static str,
    bom: bool,
    sizes: Vec<usize>,
    cap: usize,
    inner: Sched,
    shuffled: bool,
}

fn combos(tier: Tier) -> Vec<Combo> {
    let size_sets: Vec<Vec<usize>> = match tier {
        Tier::Quick => vec![vec![1], vec![3], vec![5], vec![4093], vec![7, 1, 2, 8192, 3, 4]],
        Tier::Thorough => vec![vec![1], vec![2], vec![3], vec![4], vec![5], vec![7], vec![8], vec![4093], vec![8192], vec![7, 1, 2, 8192, 3, 4], vec![6, 5], vec![9, 2, 1]],
    };
    let mut out = vec![];
    let mut k = 0;
    for enc in ENCODINGS {
        for bom in [false, true] {
            for sizes in &size_sets {
                k += 1;
                let (cap, inner) = match k % 4 {
                    0 => (8192, Sched::Full),
                    1 => (1, Sched::Fixed(1)),
                    2 => (3, Sched::Fixed(3)),
                    _ => (5, Sched::Sizes(vec![1, 2, 3, 5, 7])),
                };
                out.push(Combo { enc, bom, sizes: sizes.clone(), cap, inner, shuffled: k % 2 == 0 });
            }
        }
    }
    out
}

/// Ill-formed sequences: (description, units before, bad units, units after)
pub fn ill_formed16() -> Vec<(String, Vec<u16>)> {
    let mut out = vec![];
    for lone in [0xdc00u16, 0xdfff, 0xdd55] {
        out.push((format!("lone trail {:04x}", lone), vec![lone]));
    }
    for lead in [0xd800u16, 0xdbff, 0xda00] {
        for next in [0x0041u16, 0xd7ff, 0xe000, 0xd800, 0xdbff, 0xffff, 0x0000] {
            out.push((format!("lead {:04x} + non-trail {:04x}", lead, next), vec![lead, next]));
        }
        out.push((format!("lead {:04x} at end", lead), vec![lead]));
    }
    out.push(("reversed pair".into(), vec![0xdc00, 0xd800]));
    out.push(("reversed pair 2".into(), vec![0xdfff, 0xdbff]));
    out
}

pub fn ill_formed32() -> Vec<(String, Vec<u32>)> {
    let mut out = vec![];
    for u in [0xd800u32, 0xdbff, 0xdc00, 0xdfff, 0x110000, 0x110001, 0x7fffffff, 0xffffffff, 0x80000000, 0x00e00000, 0xfffe0000] {
        out.push((format!("invalid scalar {:x}", u), vec![u]));
    }
    out
}

fn check_encoder_case(bytes: &[u8], enc: &str, inner: &Sched, cap: usize, sizes: &[usize], what: &str) -> Result<(), String> {
    let (got, err) = run_encoder(bytes, inner, cap, sizes);
    match decode_reference(bytes, enc) {
        Ok(text) => {
            if let Some(e) = err {
                return Err(format!("{}: well-formed {} input rejected by the re-encoder: {}", what, enc, e));
            }
            if got != text.as_bytes() {
                let i = got.iter().zip(text.as_bytes()).position(|(a, b)| a != b).unwrap_or(got.len().min(text.len()));
                return Err(format!(
                    "{}: re-encoded {} text differs from the UTF-8 text at byte {} (got {} bytes, expected {}): got {:?} expected {:?}",
                    what,
                    enc,
                    i,
                    got.len(),
                    text.len(),
                    brief_bytes(&got[i.saturating_sub(4)..(i + 8).min(got.len())]),
                    brief_bytes(&text.as_bytes()[i.saturating_sub(4)..(i + 8).min(text.len())])
                ));
            }
        }
        Err((prefix, why)) => {
            match err {
                None => return Err(format!("{}: ill-formed {} input ({}) was accepted; output {:?}", what, enc, why, brief_bytes(&got))),
                Some(_) => {}
            }
            if !is_prefix(&got, prefix.as_bytes()) {
                return Err(format!(
                    "{}: ill-formed {} input ({}): bytes produced before the error {:?} are not a prefix of the well-formed prefix {:?}",
                    what,
                    enc,
                    why,
                    brief_bytes(&got),
                    brief_bytes(prefix.as_bytes())
                ));
            }
        }
    }
    Ok(())
}

// ---------------------------------------------------------------------------
// End-to-end

#[derive(Clone, Debug)]
struct E2e {
    docs: Vec<Val>,
    styles: Vec<Style>,
    seps: Vec<u8>,
    enc: usize,
    bom: bool,
    mode: Mode,
    detect: bool,
    ascii_only: bool,
}

fn ascii_val_strategy() -> BoxedStrategy<Val> {
    let leaf = prop_oneof![
        any::<bool>().prop_map(Val::Bool),
        int_strategy().prop_map(Val::Int),
        "[ -~]{0,12}".prop_map(Val::Str),
        Just(Val::Null),
        float_strategy().prop_map(Val::Float),
    ];
    leaf.prop_recursive(4, 24, 5, |inner| {
        prop_oneof![
            proptest::collection::vec(inner.clone(), 0..5).prop_map(Val::Seq),
            proptest::collection::vec(("[ -~]{0,8}", inner), 0..5).prop_map(|e| {
                let mut seen = std::collections::BTreeSet::new();
                Val::Map(e.into_iter().filter(|(k, _)| seen.insert(k.clone())).map(|(k, v)| (Val::Str(k), v)).collect())
            }),
        ]
    })
    .boxed()
}

fn e2e_strategy() -> BoxedStrategy<E2e> {
    (
        any::<bool>(),
        0usize..4,
        any::<bool>(),
        mode_strategy(),
        any::<bool>(),
        proptest::collection::vec(style_strategy(), 1..3),
        proptest::collection::vec(any::<u8>(), 0..4),
    )
        .prop_flat_map(|(ascii_only, enc, bom, mode, detect, styles, seps)| {
            let docs = if ascii_only { proptest::collection::vec(ascii_val_strategy(), 1..4).boxed() } else { proptest::collection::vec(doc_strategy(Shape::COMMON_NULL), 1..4).boxed() };
            docs.prop_map(move |docs| E2e { docs, styles: styles.clone(), seps: seps.clone(), enc, bom, mode: mode.clone(), detect, ascii_only })
        })
        .boxed()
}

fn e2e_json(c: &E2e) -> J {
    json!({"unit": "e2e", "docs": c.docs.iter().map(Val::to_json).collect::<Vec<_>>(), "styles": c.styles.iter().map(Style::to_json).collect::<Vec<_>>(),
           "seps": c.seps, "enc": c.enc, "bom": c.bom, "mode": c.mode.to_json(), "detect": c.detect, "ascii_only": c.ascii_only})
}

fn e2e_from_json(j: &J) -> Option<E2e> {
    Some(E2e {
        docs: j["docs"].as_array()?.iter().map(Val::from_json).collect::<Option<Vec<_>>>()?,
        styles: j["styles"].as_array()?.iter().map(Style::from_json).collect::<Option<Vec<_>>>()?,
        seps: j["seps"].as_array()?.iter().map(|x| x.as_u64().map(|x| x as u8)).collect::<Option<Vec<_>>>()?,
        enc: j["enc"].as_u64()? as usize,
        bom: j["bom"].as_bool()?,
        mode: Mode::from_json(&j["mode"])?,
        detect: j["detect"].as_bool()?,
        ascii_only: j["ascii_only"].as_bool().unwrap_or(false),
    })
}

fn check_e2e(c: &E2e, rec: &mut Recorder) -> Result<(), String> {
    let text = crate::wr_yaml::write_stream(&c.docs, &c.styles, &c.seps);
    // only texts the harness reader agrees on
    match crate::rd_yaml::read_stream(text.as_bytes()) {
        Ok(d) if d.docs == c.docs => {}
        _ => {
            rec.reject();
            return Ok(());
        }
    }
    if text.is_empty() {
        rec.reject();
        return Ok(());
    }
    check_text(&text, c.enc, c.bom, &c.mode, c.detect, rec)
}

/// One text, one encoding: every target must give the verdict and bytes of the
/// UTF-8 run.
pub fn check_text(text: &str, enc_idx: usize, want_bom: bool, mode: &Mode, want_detect: bool, rec: &mut Recorder) -> Result<(), String> {
    struct C<'a> {
        mode: &'a Mode,
    }
    let c = C { mode };
    let enc = ENCODINGS[enc_idx];
    // YAML 1.2 5.2: without a BOM the stream must start with an ASCII character
    let bom = want_bom || !text.chars().next().map_or(false, |ch| ch.is_ascii() && ch != '\0');
    let encoded = encode_text(text, enc, bom);
    let mut from = Some(Fmt::Yaml);
    if want_detect {
        if detect(text.as_bytes(), c.mode) == Ok(Some(Fmt::Yaml)) {
            from = None;
            rec.class("e2e:detected");
        }
    }
    let is_ascii = text.is_ascii();
    for to in FORMATS {
        let reference = run_mode(text.as_bytes(), c.mode, from, to);
        let got = run_mode(&encoded, c.mode, from, to);
        if got.verdict.is_panic() || reference.verdict.is_panic() {
            return Err(format!("panic: {} / {}", got.verdict.brief(), reference.verdict.brief()));
        }
        let same_verdict = got.verdict.is_ok() == reference.verdict.is_ok();
        // a text both runs refuse has no translation; what was written before the
        // refusal depends on the route (whole-text parser vs document splitter) and
        // only has to be consistent (one a prefix of the other), as in C02
        let same_output = if reference.verdict.is_ok() { got.out == reference.out } else { crate::util::prefix_comparable(&got.out, &reference.out) };
        if !same_verdict || !same_output {
            return Err(format!(
                "[{}{} {} {} -> {}] differs from the same text in UTF-8: got {} / UTF-8 {} (text {:?})",
                enc,
                if bom { "+BOM" } else { "" },
                c.mode.class(),
                opt_name(from),
                to.name(),
                got.brief(),
                reference.brief(),
                brief_bytes(text.as_bytes())
            ));
        }
        rec.count(Some(hash_bytes(&[&encoded, to.name().as_bytes(), c.mode.class().as_bytes(), opt_name(from).as_bytes()])));
        rec.class(if reference.verdict.is_ok() { "e2e:ok" } else { "e2e:err" });
    }
    rec.class(if is_ascii { "e2e:ascii_only" } else { "e2e:non_ascii" });
    rec.class(&format!("e2e:{}{}", enc, if bom { "+bom" } else { "" }));
    rec.class(&format!("e2e:mode:{}", c.mode.class()));
    rec.sample(|| json!({"enc": enc, "bom": bom, "mode": c.mode.class(), "from": opt_name(from), "text": brief_bytes(text.as_bytes())}));
    Ok(())
}

impl Check for C07 {
    fn id(&self) -> &'static str {
        "C07"
    }
    fn level(&self) -> &'static str {
        "exploration"
    }
    fn rule(&self) -> String {
        "Unit 'scalars' (exhaustive over the character domain): every one of the 1,112,064 Unicode scalar values, in order and in a stride permutation, encoded by the harness as UTF-16BE/LE and UTF-32BE/LE with and without BOM, is read through the re-encoder hook with a set of read-buffer sizes over inner readers that cut inside code units; oracle = Rust's own UTF-8 of the text with a leading BOM stripped. Unit 'illformed' enumerates every ill-formed one- and two-unit class (lone trail, lead + each kind of non-trail, lead at end, reversed pair, truncated unit, UTF-32 surrogate values and values >= 0x110000) at the start, middle and end of valid text under all buffer sizes; oracle = std's reference decoder: the read must fail and bytes produced before must be a prefix of the UTF-8 of the longest well-formed prefix. Unit 'e2e': generated YAML streams (ASCII-only and not, 1..3 documents, all writer styles) in 4 encodings x BOM x slice/scheduled reader x explicit/detected x 4 targets must give the same verdict and bytes as the UTF-8 text. Evaluations: one per (text, encoding, BOM, sizes) pass or (text, encoding, mode, target); every case is non-trivial (each pass covers all scalars / an ill-formed class / a re-encoded document); distinct by hash.".into()
    }
    fn assumptions(&self) -> Vec<String> {
        vec![
            "the reference is Rust's standard library (String UTF-8, char::decode_utf16, char::from_u32)".into(),
            "BOM-less texts start with an ASCII character (YAML 1.2 section 5.2 precondition that encoding.rs documents); otherwise a BOM is added".into(),
        ]
    }
    fn units(&self, tier: Tier) -> Vec<Unit> {
        vec![Unit::enumerate("scalars", 16), Unit::enumerate("illformed", 8), Unit::gen("e2e", 16, tier.pick(6000, 60_000)), Unit::enumerate("tiny", 8), Unit::enumerate("long", 8)]
    }
    fn required_classes(&self, _tier: Tier) -> Vec<&'static str> {
        vec!["e2e:ascii_only", "e2e:non_ascii", "e2e:detected", "e2e:mode:slice", "e2e:mode:bytewise", "e2e:utf-16le", "e2e:utf-32be+bom", "e2e:ok", "scalars:pass", "illformed:utf-16", "illformed:utf-32"]
    }
    fn extra_coverage(&self, _tier: Tier) -> J {
        json!({"exhaustive_subdomain": "unit 'scalars' covers all 1,112,064 Unicode scalar values in every (encoding, BOM) combination; unit 'illformed' covers all listed ill-formed classes; unit 'e2e' is sampled"})
    }
    fn run_unit(&self, unit: &Unit, shard: u32, seed: u64, tier: Tier, rec: &mut Recorder) {
        match unit.name {
            "tiny" => {
                // every text of 0..=3 characters over a small alphabet: streams of one
                // or two code units, a lone byte order mark, a lone newline
                let alphabet = ['1', 'a', '~', '-', ' ', '\n', '[', ']', '"', '\u{e9}', '\u{20ac}', '\u{1f600}', '\u{feff}'];
                let mut texts: Vec<String> = vec![String::new()];
                for len in 1..=3usize {
                    let mut idx = vec![0usize; len];
                    loop {
                        texts.push(idx.iter().map(|&i| alphabet[i]).collect());
                        let mut k = 0;
                        while k < len {
                            idx[k] += 1;
                            if idx[k] < alphabet.len() {
                                break;
                            }
                            idx[k] = 0;
                            k += 1;
                        }
                        if k == len {
                            break;
                        }
                    }
                }
                for (i, text) in texts.iter().enumerate() {
                    if i as u32 % unit.shards != shard {
                        continue;
                    }
                    for enc in 0..4 {
                        for bom in [false, true] {
                            for (mi, mode) in [Mode::Slice, Mode::Reader(Sched::Fixed(1)), Mode::Reader(Sched::Full)].into_iter().enumerate() {
                                let detect = (i + mi) % 2 == 0;
                                rec.trace_case(|| json!({"unit": "tiny", "text": text, "enc": enc, "bom": bom, "mode": mode.to_json(), "detect": detect}));
                                rec.class("tiny");
                                if let Err(m) = check_text(text, enc, bom, &mode, detect, rec) {
                                    rec.fail(m, json!({"unit": "tiny", "text": text, "enc": enc, "bom": bom, "mode": mode.to_json(), "detect": detect}));
                                    return;
                                }
                            }
                        }
                    }
                }
            }
            "long" => {
                // texts longer than every internal buffer (8 KiB BufReader, 16 KiB
                // libyaml input, the re-encoder's remainder) with characters of every
                // UTF-8 length at every alignment
                let chars = ['\u{e9}', '\u{20ac}', '\u{1f600}', 'x', '\u{30a2}'];
                let mut n = 0u32;
                for k in 0..6usize {
                    let mut text = String::from("- \"");
                    for i in 0..(17_000 + 1111 * k) {
                        text.push(chars[(i + k + i / 7) % 5]);
                    }
                    text.push_str("\"\n- [1, 2]\n");
                    for pad in 0..3usize {
                        let text = format!("{}{}", "#".repeat(pad) + if pad > 0 { "\n" } else { "" }, text);
                        for enc in 0..4 {
                            n += 1;
                            if n % unit.shards != shard {
                                continue;
                            }
                            for mode in [Mode::Slice, Mode::Reader(Sched::Fixed(8192)), Mode::Reader(Sched::Sizes(vec![1, 16384, 3, 8191, 100])), Mode::Reader(Sched::Full)] {
                                rec.class("long");
                                let cj = json!({"unit": "long", "text": text, "enc": enc, "bom": k % 2 == 0, "mode": mode.to_json(), "detect": pad == 1});
                                rec.trace_case(|| cj.clone());
                                if let Err(m) = check_text(&text, enc, k % 2 == 0, &mode, pad == 1, rec) {
                                    rec.fail(m, cj);
                                    return;
                                }
                            }
                        }
                    }
                }
            }
            "scalars" => {
                let cs = combos(tier);
                let mut texts: [Option<String>; 2] = [None, None];
                for (i, c) in cs.iter().enumerate() {
                    if i as u32 % unit.shards != shard {
                        continue;
                    }
                    let t = texts[c.shuffled as usize].get_or_insert_with(|| all_scalars(c.shuffled));
                    let bytes = encode_text(t, c.enc, c.bom);
                    let cj = json!({"unit": "scalars", "enc": c.enc, "bom": c.bom, "sizes": c.sizes, "cap": c.cap, "inner": c.inner.to_json(), "shuffled": c.shuffled});
                    if rec.tracing() {
                        rec.trace_case(|| cj.clone());
                    }
                    rec.count(Some(hash_of(&cj.to_string())));
                    rec.class("scalars:pass");
                    rec.class_n("scalars:characters", t.chars().count() as u64);
                    if let Err(m) = check_encoder_case(&bytes, c.enc, &c.inner, c.cap, &c.sizes, "all scalars") {
                        rec.fail(m, cj);
                        return;
                    }
                    rec.sample(|| cj.clone());
                }
            }
            "illformed" => {
                let size_sets: Vec<Vec<usize>> = vec![vec![1], vec![2], vec![3], vec![4], vec![5], vec![7], vec![8], vec![4093], vec![3, 1, 4]];
                let contexts: [(&str, &str); 4] = [("", ""), ("ab", ""), ("a: ", "\nb: 1\n"), ("a\u{e9}\u{1f600}", "z")];
                let mut n = 0u32;
                for enc in ENCODINGS {
                    for bom in [false, true] {
                        let cases: Vec<(String, Vec<u8>)> = if enc.starts_with("utf-16") {
                            let mut v: Vec<(String, Vec<u8>)> = vec![];
                            for (name, bad) in ill_formed16() {
                                for (pre, post) in contexts {
                                    let mut units: Vec<u16> = vec![];
                                    if bom {
                                        units.push(0xfeff);
                                    }
                                    units.extend(pre.encode_utf16());
                                    units.extend(&bad);
                                    if !name.ends_with("at end") {
                                        units.extend(post.encode_utf16());
                                    }
                                    v.push((format!("{} after {:?}", name, pre), encode_units16(&units, enc)));
                                }
                            }
                            for (pre, _) in contexts {
                                let mut b = encode_text(&format!("{}x", pre), enc, bom);
                                b.pop();
                                v.push((format!("truncated unit after {:?}", pre), b));
                            }
                            v
                        } else {
                            let mut v: Vec<(String, Vec<u8>)> = vec![];
                            for (name, bad) in ill_formed32() {
                                for (pre, post) in contexts {
                                    let mut units: Vec<u32> = vec![];
                                    if bom {
                                        units.push(0xfeff);
                                    }
                                    units.extend(pre.chars().map(|c| c as u32));
                                    units.extend(&bad);
                                    units.extend(post.chars().map(|c| c as u32));
                                    v.push((format!("{} after {:?}", name, pre), encode_units32(&units, enc)));
                                }
                            }
                            for (pre, _) in contexts {
                                for cut in 1..4 {
                                    let mut b = encode_text(&format!("{}x", pre), enc, bom);
                                    b.truncate(b.len() - cut);
                                    v.push((format!("unit truncated by {} after {:?}", cut, pre), b));
                                }
                            }
                            v
                        };
                        for (name, bytes) in cases {
                            // the encoding must be detectable: BOM, or ASCII first character
                            if !bom && xt::verif::yaml_detect_encoding(&bytes[..bytes.len().min(4)]) != enc {
                                continue;
                            }
                            for (si, sizes) in size_sets.iter().enumerate() {
                                n += 1;
                                if n % unit.shards != shard {
                                    continue;
                                }
                                let (cap, inner) = [(8192, Sched::Full), (1, Sched::Fixed(1)), (3, Sched::Fixed(2))][si % 3].clone();
                                let cj = json!({"unit": "illformed", "enc": enc, "bytes": hex(&bytes), "name": name, "sizes": sizes, "cap": cap, "inner": inner.to_json()});
                                if rec.tracing() {
                                    rec.trace_case(|| cj.clone());
                                }
                                rec.count(Some(hash_of(&cj.to_string())));
                                rec.class(if enc.starts_with("utf-16") { "illformed:utf-16" } else { "illformed:utf-32" });
                                if let Err(m) = check_encoder_case(&bytes, enc, &inner, cap, sizes, &name) {
                                    rec.fail(m, cj);
                                    return;
                                }
                                rec.sample(|| cj.clone());
                            }
                        }
                    }
                }
            }
            "e2e" => run_prop(rec, seed, unit.cases, e2e_strategy(), e2e_json, check_e2e),
            other => panic!("unknown unit {}", other),
        }
    }
    fn replay(&self, case: &J) -> Result<(), String> {
        match case["unit"].as_str().unwrap_or("") {
            "e2e" => check_e2e(&e2e_from_json(case).ok_or("bad e2e case")?, &mut Recorder::default()),
            "tiny" | "long" => check_text(
                case["text"].as_str().ok_or("no text")?,
                case["enc"].as_u64().ok_or("no enc")? as usize,
                case["bom"].as_bool().ok_or("no bom")?,
                &Mode::from_json(&case["mode"]).ok_or("bad mode")?,
                case["detect"].as_bool().unwrap_or(false),
                &mut Recorder::default(),
            ),
            "illformed" => {
                let bytes = unhex(case["bytes"].as_str().ok_or("no bytes")?).ok_or("bad hex")?;
                let sizes: Vec<usize> = case["sizes"].as_array().ok_or("no sizes")?.iter().filter_map(|x| x.as_u64().map(|x| x as usize)).collect();
                let inner = Sched::from_json(&case["inner"]).ok_or("bad inner")?;
                check_encoder_case(&bytes, case["enc"].as_str().ok_or("no enc")?, &inner, case["cap"].as_u64().unwrap_or(8192) as usize, &sizes, "replay")
            }
            "scalars" => {
                let sizes: Vec<usize> = case["sizes"].as_array().ok_or("no sizes")?.iter().filter_map(|x| x.as_u64().map(|x| x as usize)).collect();
                let inner = Sched::from_json(&case["inner"]).ok_or("bad inner")?;
                let enc = case["enc"].as_str().ok_or("no enc")?;
                let t = all_scalars(case["shuffled"].as_bool().unwrap_or(false));
                let bytes = encode_text(&t, enc, case["bom"].as_bool().unwrap_or(false));
                check_encoder_case(&bytes, enc, &inner, case["cap"].as_u64().unwrap_or(8192) as usize, &sizes, "all scalars")
            }
            _ => Err("unknown unit".into()),
        }
    }
}
