//! C17 Memory safety of the YAML parser binding and decoders.
//!
//! Meant to run in the nightly AddressSanitizer build of this harness (the
//! `check` script does that): a sanitizer report kills the worker, and the
//! runner attributes the death to the traced case.

use std::io::{BufReader, Read};

use proptest::prelude::*;
use serde_json::{json, Value as J};

use crate::corpus::*;
use crate::runner::*;
use crate::sio::*;
use crate::util::*;
use crate::xtapi::*;

pub struct C17;

#[cfg(feature = "asan")]
extern "C" {
    fn __lsan_do_recoverable_leak_check() -> std::os::raw::c_int;
}

/// Runs LeakSanitizer now; true when it found leaked memory.
pub fn leak_check() -> bool {
    #[cfg(feature = "asan")]
    unsafe {
        return __lsan_do_recoverable_leak_check() != 0;
    }
    #[allow(unreachable_code)]
    false
}

pub fn sanitizer_active() -> bool {
    cfg!(feature = "asan")
}

#[derive(Clone, Debug)]
pub enum Plan {
    /// plain scheduled reader
    Plain,
    /// reader fails once k bytes were delivered
    FailAt(u16),
    /// reader claims `excess` more bytes than it read, on read number `on` (None = every read)
    OverReport { excess: usize, on: Option<usize> },
    /// reader claims a read on call number `on` without writing the bytes
    Unwritten { on: usize },
}

#[derive(Clone, Debug)]
pub struct Case {
    pub bytes: Vec<u8>,
    pub sched: Sched,
    pub plan: Plan,
    /// 0: translate explicit YAML; 1: translate detected; 2: chunker hook dropped after `limit` items; 3: re-encoder hook; 4: detection only
    pub entry: u8,
    pub to: Fmt,
    pub limit: usize,
    pub read_size: usize,
}

impl Case {
    pub fn to_json(&self) -> J {
        json!({"unit": "gen", "bytes": hex(&self.bytes), "text": brief_bytes(&self.bytes), "sched": self.sched.to_json(), "entry": self.entry, "to": self.to.name(), "limit": self.limit, "read_size": self.read_size,
               "plan": match &self.plan { Plan::Plain => json!("plain"), Plan::FailAt(k) => json!({"fail_at": k}), Plan::OverReport { excess, on } => json!({"excess": excess, "on": on}), Plan::Unwritten { on } => json!({"unwritten_on": on}) }})
    }
    pub fn from_json(j: &J) -> Option<Case> {
        let plan = if j["plan"].as_str() == Some("plain") {
            Plan::Plain
        } else if let Some(k) = j["plan"].get("fail_at") {
            Plan::FailAt(k.as_u64()? as u16)
        } else {
            if let Some(on) = j["plan"]["unwritten_on"].as_u64() {
                Plan::Unwritten { on: on as usize }
            } else {
                Plan::OverReport { excess: j["plan"]["excess"].as_u64()? as usize, on: j["plan"]["on"].as_u64().map(|x| x as usize) }
            }
        };
        Some(Case {
            bytes: unhex(j["bytes"].as_str()?)?,
            sched: Sched::from_json(&j["sched"])?,
            plan,
            entry: j["entry"].as_u64()? as u8,
            to: Fmt::from_name(j["to"].as_str()?)?,
            limit: j["limit"].as_u64()? as usize,
            read_size: j["read_size"].as_u64().unwrap_or(64) as usize,
        })
    }
}

/// YAML-flavoured byte inputs: the general corpora plus YAML in UTF-16/32.
fn yaml_bytes() -> BoxedStrategy<Vec<u8>> {
    prop_oneof![
        6 => bytes_strategy().prop_map(|b| b.bytes),
        3 => (stream_strategy(4, crate::model::Shape::COMMON_NULL), 0usize..4, any::<bool>(), mutops_strategy(), any::<bool>()).prop_map(|(s, enc, bom, ops, mutate)| {
            let docs = s.docs;
            let text = crate::wr_yaml::write_stream(&docs.iter().filter(|d| crate::wr_yaml::supports(d)).cloned().collect::<Vec<_>>(), &[Style::canonical()], &[1, 2, 0]);
            let b = crate::checks::c07::encode_text(&text, crate::checks::c07::ENCODINGS[enc], bom);
            if mutate { apply_mutations(b, &ops, Fmt::Yaml) } else { b }
        }),
        2 => proptest::collection::vec(proptest::sample::select(YAML_TOKENS.to_vec()), 1..30).prop_map(|t| t.concat()),
        1 => Just(b"a: &x [1, 2]\nb: *x\n--- !t\n- *y\n".to_vec()),
        // tens of KiB of YAML dense with 2-, 3- and 4-byte characters at drawn
        // offsets: libyaml refills its 16 KiB raw buffer with a partial
        // character carried over, the read handler is asked for less than 16 KiB
        3 => (proptest::collection::vec(any::<u8>(), 40..400), 1usize..5, any::<bool>()).prop_map(|(gaps, docs, flow)| {
            let chars = ['\u{e9}', '\u{20ac}', '\u{1f600}', '\u{30a2}', '\u{10ffff}', '\u{7ff}'];
            let mut out = String::new();
            let target = 18_000 + gaps.len() * 150;
            let mut i = 0usize;
            for d in 0..docs {
                out.push_str(if d == 0 && !flow { "" } else { "---\n" });
                while out.len() < target * (d + 1) / docs {
                    out.push_str("- \"");
                    for _ in 0..12 {
                        let g = gaps[i % gaps.len()] as usize;
                        i += 1;
                        for _ in 0..(g % 9) {
                            out.push('x');
                        }
                        out.push(chars[(g / 9) % chars.len()]);
                    }
                    out.push_str("\"\n");
                }
            }
            out.into_bytes()
        }),
    ]
    .boxed()
}

fn case_strategy() -> BoxedStrategy<Case> {
    (
        yaml_bytes(),
        sched_strategy(),
        prop_oneof![
            4 => Just(Plan::Plain),
            3 => any::<u16>().prop_map(Plan::FailAt),
            3 => (prop_oneof![1usize..4, 1usize..70000, Just(usize::MAX / 2)], proptest::option::of(0usize..6)).prop_map(|(excess, on)| Plan::OverReport { excess, on }),
            2 => (0usize..5).prop_map(|on| Plan::Unwritten { on }),
        ],
        0u8..5,
        crate::checks::c01::fmt_strategy(),
        0usize..4,
        prop_oneof![Just(1usize), Just(3), Just(64), Just(8192)],
    )
        .prop_map(|(bytes, sched, plan, entry, to, limit, read_size)| Case { bytes, sched, plan, entry, to, limit, read_size })
        .boxed()
}

enum AnyReader<'a> {
    Sched(SchedReader<'a>),
    Over(OverReportReader<'a>),
    Unwritten(UnwrittenReader<'a>),
}

impl Read for AnyReader<'_> {
    fn read(&mut self, buf: &mut [u8]) -> std::io::Result<usize> {
        match self {
            AnyReader::Sched(r) => r.read(buf),
            AnyReader::Over(r) => r.read(buf),
            AnyReader::Unwritten(r) => r.read(buf),
        }
    }
}

fn reader_for<'a>(c: &'a Case) -> AnyReader<'a> {
    match &c.plan {
        Plan::Plain => AnyReader::Sched(SchedReader::new(&c.bytes, c.sched.clone())),
        Plan::FailAt(k) => {
            let at = (*k as usize * (c.bytes.len() + 1)) >> 16;
            AnyReader::Sched(SchedReader::failing(&c.bytes, c.sched.clone(), at))
        }
        Plan::Unwritten { on } => AnyReader::Unwritten(UnwrittenReader { inner: SchedReader::new(&c.bytes, c.sched.clone()), on_read: *on, count: 0 }),
        Plan::OverReport { excess, on } => AnyReader::Over(OverReportReader { inner: SchedReader::new(&c.bytes, c.sched.clone()), excess: *excess, on_read: *on, count: 0, lied: false }),
    }
}

#[derive(Clone, Copy, PartialEq)]
enum Kind {
    Ok,
    Err,
    Panic,
}

/// Runs the case once; everything it allocates is dropped before returning.
/// Returns the outcome kind, the panic text (only when it panicked) and the
/// number of read calls.
fn run_once(c: &Case) -> (Kind, Option<String>, usize) {
    let (k, p, reads, _) = run_once_digest(c);
    (k, p, reads)
}

/// Like `run_once`; also returns a digest of everything observable (output bytes,
/// error or panic text).
fn run_once_digest(c: &Case) -> (Kind, Option<String>, usize, u64) {
    let mut r = reader_for(c);
    let mut observed: Vec<u8> = vec![];
    let v = match c.entry {
        0 | 1 => {
            let from = if c.entry == 0 { Some(xt::Format::Yaml) } else { None };
            let mut out = vec![];
            let v = guarded(|| xt::translate_reader(&mut r, from, c.to.xt(), &mut out));
            observed = out;
            v
        }
        2 => guarded(|| {
            // the chunker alone, dropped after `limit` items (early drop of the parser)
            let items = xt::verif::yaml_chunks(&mut r, c.limit);
            for it in items {
                let _ = it.map(|(text, coll)| (text.len(), coll));
            }
            Ok(())
        }),
        3 => guarded(|| {
            // the re-encoder alone with a small read buffer
            let mut enc = match xt::verif::yaml_encoder(BufReader::with_capacity(c.read_size.max(1), &mut r)) {
                Ok(e) => e,
                Err(_) => return Ok(()),
            };
            let mut buf = vec![0u8; c.read_size.max(1)];
            let mut total = 0usize;
            loop {
                match enc.read(&mut buf) {
                    Ok(0) | Err(_) => break,
                    Ok(n) => {
                        total += n;
                        if total > 64 * (c.bytes.len() + 16) {
                            break;
                        }
                    }
                }
            }
            Ok(())
        }),
        _ => guarded(|| {
            let _ = xt::verif::detect_reader(&mut r);
            Ok(())
        }),
    };
    let reads = match &r {
        AnyReader::Sched(s) => s.reads,
        AnyReader::Over(o) => o.inner.reads,
        AnyReader::Unwritten(u) => u.inner.reads,
    };
    observed.extend_from_slice(v.text().as_bytes());
    let digest = hash_bytes(&[&observed]);
    match v {
        Verdict::Ok => (Kind::Ok, None, reads, digest),
        Verdict::Err(_) => (Kind::Err, None, reads, digest),
        Verdict::Panic(p) => (Kind::Panic, Some(p), reads, digest),
    }
}

fn live_bytes() -> usize {
    crate::checks::c05::alloc_count::LIVE.load(std::sync::atomic::Ordering::Relaxed)
}

pub fn check_case(c: &Case, rec: &mut Recorder) -> Result<(), String> {
    // A reader that claims bytes it did not write makes the caller's buffer
    // contents observable. Whatever xt makes of them, it must not depend on what
    // FRESH heap memory happens to hold: the run is repeated with every new
    // allocation pre-filled with two different bytes and must come out the same.
    if matches!(c.plan, Plan::Unwritten { .. }) && c.entry <= 1 {
        use crate::checks::c05::alloc_count::FILL;
        use std::sync::atomic::Ordering;
        FILL.store(b'Z', Ordering::Relaxed);
        let a = run_once_digest(c);
        FILL.store(b'q', Ordering::Relaxed);
        let b = run_once_digest(c);
        FILL.store(0, Ordering::Relaxed);
        if a.3 != b.3 {
            return Err("the outcome (output bytes or error text) depends on the contents of freshly allocated heap memory: uninitialised memory is read".to_string());
        }
        rec.class("fresh_memory_independent");
    }
    let lying = matches!(c.plan, Plan::OverReport { .. });
    // Leak oracle: the harness's counting global allocator (libyaml's memory
    // goes through it too). The heap level must return to where it was; a first
    // positive delta may be one-time lazy initialisation, so the case is run
    // again and must then leave nothing behind.
    let before = live_bytes();
    let (kind, panic_text, reads) = run_once(c);
    let mut leaked = live_bytes().saturating_sub(before + panic_text.as_ref().map_or(0, |p| p.capacity()));
    if leaked > 0 {
        drop(panic_text.clone());
        let before2 = live_bytes();
        let (_, p2, _) = run_once(c);
        leaked = live_bytes().saturating_sub(before2 + p2.as_ref().map_or(0, |p| p.capacity()));
    }
    if kind == Kind::Panic {
        if !lying {
            return Err(format!("panic although the reader kept the Read contract: {}", panic_text.unwrap_or_default()));
        }
        rec.class("clean_panic_on_contract_violation");
    }
    if leaked > 0 {
        // K9: what stays behind is the token libyaml was building when the panic
        // unwound through it - a string no longer than twice the input (its buffer
        // doubles), far less than the parser's own fixed buffers (> 64 KiB), which
        // must still be released
        let k9_shape = leaked <= 2 * c.bytes.len() + 4096;
        if lying && kind == Kind::Panic && k9_shape && is_known_class("C17", "leak_when_overreporting_reader_panics") {
            rec.known("leak_when_overreporting_reader_panics");
            rec.class(match leaked {
                0..=64 => "k9_leak:<=64B",
                65..=1024 => "k9_leak:<=1KiB",
                1025..=16384 => "k9_leak:<=16KiB",
                _ => "k9_leak:>16KiB",
            });
        } else {
            return Err(format!("{} bytes stay allocated after the call returned ({}): memory leaked", leaked, match kind { Kind::Ok => "Ok", Kind::Err => "Err", Kind::Panic => "panic" }));
        }
    }
    let nontrivial = reads >= 2 || c.entry == 2;
    rec.count(if nontrivial { Some(hash_of(&c.to_json().to_string())) } else { None });
    rec.class(["entry:translate_yaml", "entry:translate_detected", "entry:chunker_early_drop", "entry:reencoder", "entry:detection_only"][c.entry.min(4) as usize]);
    rec.class(match c.plan {
        Plan::Plain => "reader:plain",
        Plan::FailAt(_) => "reader:fails_at_offset",
        Plan::OverReport { .. } => "reader:over_reports",
        Plan::Unwritten { .. } => "reader:claims_unwritten_bytes",
    });
    rec.class(match kind {
        Kind::Ok => "verdict:ok",
        Kind::Err => "verdict:err",
        Kind::Panic => "verdict:panic",
    });
    rec.sample(|| json!({"entry": c.entry, "plan": format!("{:?}", c.plan), "sched": c.sched.class(), "input": brief_bytes(&c.bytes)}));
    Ok(())
}

/// Deterministic case list for the Miri sample (no proptest: Miri is slow).
pub fn miri_cases() -> Vec<Case> {
    let mut out = vec![];
    let texts: Vec<Vec<u8>> = vec![
        b"a: 1\n".to_vec(),
        b"---\n- x\n- [1, 2]\n---\nb\n...\n".to_vec(),
        b"*y".to_vec(),
        b"&a [*a]".to_vec(),
        b"a: [1,\n".to_vec(),
        b"\xff\xfea\x00:\x00 \x001\x00\n\x00".to_vec(),
        b"\x00\x00\xfe\xff\x00\x00\x00a\x00\x00\x00:\x00\x00\x00 \x00\x00\xd8\x00".to_vec(),
        b"a\x00\x00\xd8:\x00".to_vec(),
        b"k: |\n  text\n  more\n--- !t {a: b}\n".to_vec(),
        b"\xef\xbb\xbf# c\n~: 1\n".to_vec(),
        b"a: \x01\n".to_vec(),
        b"".to_vec(),
    ];
    for (ti, t) in texts.iter().enumerate() {
        for entry in 0..5u8 {
            for (pi, plan) in [Plan::Plain, Plan::FailAt(30000), Plan::OverReport { excess: 1, on: Some(1) }, Plan::OverReport { excess: 40000, on: None }].into_iter().enumerate() {
                if (ti + entry as usize + pi) % 2 == 1 && !matches!(plan, Plan::Plain) {
                    continue;
                }
                out.push(Case { bytes: t.clone(), sched: if pi % 2 == 0 { Sched::Fixed(3) } else { Sched::Full }, plan, entry, to: FORMATS[(ti + pi) % 4], limit: pi % 3, read_size: [1, 3, 64][pi % 3] });
            }
        }
    }
    out
}

/// Entry point of `xtv miri-sample <shard> <nshards>` (run under `cargo miri`).
pub fn miri_sample(shard: usize, nshards: usize) -> i32 {
    crate::xtapi::install_panic_hook();
    let mut n = 0;
    for (i, c) in miri_cases().iter().enumerate() {
        if i % nshards != shard {
            continue;
        }
        let mut rec = Recorder::default();
        if let Err(m) = check_case(c, &mut rec) {
            println!("MIRI-CASE-FAILED {} {}", i, m);
            return 1;
        }
        n += 1;
    }
    println!("MIRI-SAMPLE-OK {}", n);
    0
}

impl Check for C17 {
    fn id(&self) -> &'static str {
        "C17"
    }
    fn level(&self) -> &'static str {
        "exploration"
    }
    fn rule(&self) -> String {
        "Runs inside the nightly AddressSanitizer + LeakSanitizer build of the harness (any sanitizer report kills the worker and is attributed to the traced case; leaks are decided per case by the harness's counting global allocator, through which libyaml's memory also goes: the heap level must return to where it was, re-checked on a second run to exclude one-time lazy initialisation). Generated: byte inputs of the C02/C04 corpora, generated YAML streams re-encoded as UTF-16/32 (optionally mutated), YAML token sequences, anchors/aliases/tags; x a drawn read schedule x a reader plan {keeps the contract; fails once k bytes were delivered; claims up to 2^62 more bytes than it read, on one read or on every read} x entry point {translate as YAML; translate with detection; the chunker hook dropped after 0..3 items (early drop of the parser); the re-encoder hook with read buffers of 1/3/64/8192 bytes; detection only (abandons the chunker after one document)} x target. Oracle: no sanitizer report, no leak; the call may return Err; a panic is tolerated only when the reader over-reported. Thorough adds a Miri sample (uninitialised reads, aliasing) of a fixed case list. One evaluation = one case; non-trivial = the reader was called at least twice or the parser was dropped early; distinct by hash of the case.".into()
    }
    fn assumptions(&self) -> Vec<String> {
        vec![
            "sees only executed paths; AddressSanitizer cannot see reads of uninitialised memory (only the Miri sample can)".into(),
            format!("sanitizer active in this build: {}", sanitizer_active()),
        ]
    }
    fn units(&self, tier: Tier) -> Vec<Unit> {
        let mut u = vec![Unit::gen("gen", 16, tier.pick(6000, 60_000)), Unit::enumerate("fixed", 4)];
        if tier == Tier::Thorough {
            u.push(Unit::enumerate("miri", 16));
        }
        u
    }
    fn required_classes(&self, _tier: Tier) -> Vec<&'static str> {
        vec!["entry:translate_yaml", "entry:translate_detected", "entry:chunker_early_drop", "entry:reencoder", "entry:detection_only", "reader:plain", "reader:fails_at_offset", "reader:over_reports", "clean_panic_on_contract_violation", "sanitizer:address", "ill_formed_code_units", "reader:claims_unwritten_bytes", "fresh_memory_independent"]
    }
    fn run_unit(&self, unit: &Unit, shard: u32, seed: u64, _tier: Tier, rec: &mut Recorder) {
        if sanitizer_active() && shard == 0 {
            rec.class("sanitizer:address");
        }
        match unit.name {
            "gen" => run_prop(rec, seed, unit.cases, case_strategy(), |c| c.to_json(), check_case),
            "fixed" => {
                // every ill-formed code-unit class of C07, through the re-encoder and
                // through a whole translation (an unchecked conversion of such a unit
                // is undefined behaviour; with the standard library's precondition
                // checks on, as in this build, it aborts)
                let mut ill: Vec<Case> = vec![];
                for enc in ["utf-16le", "utf-16be", "utf-32le", "utf-32be"] {
                    let texts: Vec<Vec<u8>> = if enc.starts_with("utf-16") {
                        crate::checks::c07::ill_formed16().into_iter().map(|(_, bad)| {
                            let mut units: Vec<u16> = vec![0xfeff];
                            units.extend("a: ".encode_utf16());
                            units.extend(&bad);
                            units.extend("\nb: 1\n".encode_utf16());
                            crate::checks::c07::encode_units16(&units, enc)
                        }).collect()
                    } else {
                        crate::checks::c07::ill_formed32().into_iter().map(|(_, bad)| {
                            let mut units: Vec<u32> = vec![0xfeff];
                            units.extend("a: ".chars().map(|c| c as u32));
                            units.extend(&bad);
                            units.extend("\nb: 1\n".chars().map(|c| c as u32));
                            crate::checks::c07::encode_units32(&units, enc)
                        }).collect()
                    };
                    for (ti, bytes) in texts.into_iter().enumerate() {
                        for entry in [0u8, 1, 3] {
                            ill.push(Case { bytes: bytes.clone(), sched: if ti % 2 == 0 { Sched::Full } else { Sched::Fixed(3) }, plan: Plan::Plain, entry, to: Fmt::Json, limit: 0, read_size: [1usize, 3, 64][ti % 3] });
                        }
                    }
                }
                for (i, c) in ill.iter().enumerate() {
                    if i as u32 % unit.shards != shard {
                        continue;
                    }
                    if rec.tracing() {
                        rec.trace_case(|| c.to_json());
                    }
                    rec.class("ill_formed_code_units");
                    if let Err(m) = check_case(c, rec) {
                        rec.fail(m, c.to_json());
                        return;
                    }
                }
                for (i, c) in miri_cases().iter().enumerate() {
                    if i as u32 % unit.shards != shard {
                        continue;
                    }
                    if rec.tracing() {
                        rec.trace_case(|| c.to_json());
                    }
                    if let Err(m) = check_case(c, rec) {
                        rec.fail(m, c.to_json());
                        return;
                    }
                }
            }
            "miri" => {
                let out = std::process::Command::new("cargo")
                    .args(["+nightly", "miri", "run", "--offline", "--manifest-path", &format!("{}/harness/Cargo.toml", verif_root()), "--target-dir", &format!("{}/.build/miri", verif_root()), "--", "miri-sample", &shard.to_string(), &unit.shards.to_string()])
                    .env("MIRIFLAGS", "-Zmiri-disable-isolation")
                    .env_remove("RUSTFLAGS")
                    .output();
                match out {
                    Ok(o) => {
                        let stdout = String::from_utf8_lossy(&o.stdout).to_string();
                        let stderr = String::from_utf8_lossy(&o.stderr).to_string();
                        if let Some(line) = stdout.lines().find(|l| l.starts_with("MIRI-SAMPLE-OK")) {
                            let n: u64 = line.split_whitespace().nth(1).and_then(|x| x.parse().ok()).unwrap_or(0);
                            for i in 0..n {
                                rec.count(Some(hash_of(&format!("miri{}-{}", shard, i))));
                            }
                            rec.class_n("miri_cases", n);
                        } else if stderr.contains("Undefined Behavior") || stdout.contains("MIRI-CASE-FAILED") {
                            let tail: String = stderr.lines().filter(|l| l.contains("error") || l.contains("Undefined")).take(6).collect::<Vec<_>>().join(" | ");
                            rec.fail(format!("Miri reports undefined behaviour in the sample (shard {}): {} {}", shard, tail, stdout.lines().last().unwrap_or("")), json!({"unit": "miri", "shard": shard, "shards": unit.shards}));
                        } else {
                            rec.notes.push(format!("miri sample shard {} could not run: {}", shard, stderr.lines().last().unwrap_or("")));
                        }
                    }
                    Err(e) => rec.notes.push(format!("could not start cargo miri: {}", e)),
                }
            }
            other => panic!("unknown unit {}", other),
        }
    }
    fn replay(&self, case: &J) -> Result<(), String> {
        if case["unit"].as_str() == Some("miri") {
            return Err("re-run: cargo +nightly miri run -- miri-sample <shard> <shards>".into());
        }
        let mut rec = Recorder::default();
        check_case(&Case::from_json(case).ok_or("bad case")?, &mut rec)
    }
    fn watchdog_secs(&self) -> u64 {
        1200
    }
    fn confirm_known(&self, k: &Known) -> bool {
        if k.class != "leak_when_overreporting_reader_panics" {
            return false;
        }
        let c = Case { bytes: b"- plain scalar text that is long enough\n- b\n".to_vec(), sched: Sched::Fixed(7), plan: Plan::OverReport { excess: 100_000, on: Some(2) }, entry: 0, to: Fmt::Json, limit: 1, read_size: 64 };
        let mut rec = Recorder::default();
        check_case(&c, &mut rec).is_ok() && rec.excluded_known.get(&k.class).copied().unwrap_or(0) > 0
    }
}
