//! C15 Output of earlier inputs survives a later failure.

use proptest::prelude::*;
use serde_json::{json, Value as J};

use crate::cli::Bin;
use crate::climodel::*;
use crate::model::*;
use crate::runner::*;
use crate::util::*;
use crate::xtapi::*;

pub struct C15;

#[derive(Clone, Debug)]
enum Fail {
    None,
    Missing,
    Syntax,
    Undetectable,
    Refused,
    SecondStdin,
    Directory,
}

#[derive(Clone, Debug)]
struct Case {
    /// (format, value, size class)
    /// (format, value, size class, input kind: 0..=5 regular file, 6..=8 FIFO, 9 standard input)
    goods: Vec<(Fmt, Val, u8, u8)>,
    fail: Fail,
    fail_pos: usize,
    to: Fmt,
    out_file: bool,
    debug: bool,
}

fn good_text(fmt: Fmt, v: &Val, size: u8, idx: usize) -> Vec<u8> {
    // size class: 0 tiny, 1 small, 2 around the 8 KiB stdout buffer, 3 large (~1-3 MB)
    let pad = match size {
        0 => 0,
        1 => 200 + idx * 37,
        2 => 8192 - 100 + idx * 61,
        _ => 1_000_000 + idx * 400_000,
    };
    let doc = Val::Map(vec![(Val::s("i"), Val::Int(idx as i128)), (Val::s("pad"), Val::Str("x".repeat(pad))), (Val::s("v"), v.clone())]);
    let doc = crate::oracle::project_source(doc, fmt);
    crate::oracle::write_source(&doc, fmt, &Style::canonical()).0
}

fn case_strategy() -> BoxedStrategy<Case> {
    (
        proptest::collection::vec((prop_oneof![Just(Fmt::Json), Just(Fmt::Yaml), Just(Fmt::Msgpack), Just(Fmt::Toml)], val_strategy(Shape { depth: 3, size: 8, ..Shape::COMMON }), prop_oneof![5 => Just(0u8), 3 => Just(1u8), 2 => Just(2u8), 1 => Just(3u8)], 0u8..10), 1..7),
        prop_oneof![
            1 => Just(Fail::None),
            2 => Just(Fail::Missing),
            2 => Just(Fail::Syntax),
            1 => Just(Fail::Undetectable),
            2 => Just(Fail::Refused),
            1 => Just(Fail::SecondStdin),
            1 => Just(Fail::Directory),
        ],
        any::<u16>(),
        prop_oneof![3 => Just(Fmt::Json), 2 => Just(Fmt::Yaml), 2 => Just(Fmt::Msgpack), 1 => Just(Fmt::Toml)],
        any::<bool>(),
        any::<bool>(),
    )
        .prop_map(|(goods, fail, p, to, out_file, debug)| {
            let fail_pos = (p as usize * (goods.len() + 1)) >> 16;
            Case { goods, fail, fail_pos, to, out_file, debug }
        })
        .boxed()
}

fn ext(f: Fmt) -> &'static str {
    match f {
        Fmt::Json => "json",
        Fmt::Yaml => "yaml",
        Fmt::Msgpack => "msgpack",
        Fmt::Toml => "toml",
    }
}

fn build(c: &Case) -> Invocation {
    let mut files = vec![];
    let mut args = vec![format!("-t{}", c.to.name())];
    let mut stdin = vec![];
    let mut used_stdin = false;
    let n = c.goods.len();
    for i in 0..=n {
        if i == c.fail_pos {
            match c.fail {
                Fail::None => {}
                Fail::Missing => args.push("nowhere.json".into()),
                Fail::Directory => {
                    files.push(FileSpec { name: "somedir".into(), kind: FileKind::Dir });
                    args.push("somedir".into());
                }
                Fail::Syntax => {
                    let mut deep = String::new();
                    for _ in 0..20 {
                        deep.push_str("{\"k\":[");
                    }
                    deep.push_str("1,,");
                    files.push(FileSpec { name: "broken.json".into(), kind: FileKind::Regular(deep.into_bytes()) });
                    args.push("broken.json".into());
                }
                Fail::Undetectable => {
                    files.push(FileSpec { name: "mystery".into(), kind: FileKind::Regular(b"\x00\x01\x02 what is this \xff".to_vec()) });
                    args.push("mystery".into());
                }
                Fail::Refused => {
                    // a value every target but TOML accepts is no failure; use bytes -> refused by YAML/TOML, null key -> JSON
                    let (name, bytes): (&str, Vec<u8>) = match c.to {
                        Fmt::Json => ("nullkey.yaml", b"~: 1\n".to_vec()),
                        Fmt::Yaml => ("bytes.msgpack", b"\x81\xa1b\xc4\x02\x01\x02".to_vec()),
                        Fmt::Toml => ("null.json", b"{\"a\": null}".to_vec()),
                        Fmt::Msgpack => ("tagged.yaml", b"!x y\n".to_vec()),
                    };
                    files.push(FileSpec { name: name.into(), kind: FileKind::Regular(bytes) });
                    args.push(name.into());
                }
                Fail::SecondStdin => {
                    if used_stdin || c.goods.iter().skip(i).any(|g| g.3 == 9) {
                        // standard input is (or will be) a good input: one more '-'
                        // here is the second use, or makes the later one the second
                        args.push("-".into());
                        if !used_stdin {
                            used_stdin = true;
                            stdin = b"{\"from\": \"stdin\"}".to_vec();
                        }
                    } else {
                        args.push("-".into());
                        args.push("-".into());
                        used_stdin = true;
                        stdin = b"{\"from\": \"stdin\"}".to_vec();
                    }
                }
            }
        }
        if i < n {
            let (fmt, v, size, kind) = &c.goods[i];
            let name = format!("in{}.{}", i, ext(*fmt));
            let text = good_text(*fmt, v, *size, i);
            match kind {
                // streams: a FIFO (format by extension), or standard input (format
                // by detection) for the first input that asks for it
                9 if !used_stdin => {
                    used_stdin = true;
                    stdin = text;
                    args.push("-".into());
                }
                6..=8 => {
                    files.push(FileSpec { name: name.clone(), kind: FileKind::Fifo(text) });
                    args.push(name);
                }
                _ => {
                    files.push(FileSpec { name: name.clone(), kind: FileKind::Regular(text) });
                    args.push(name);
                }
            }
        }
    }
    let _ = used_stdin;
    Invocation { args, files, stdin, out: if c.out_file { OutKind::File } else { OutKind::Pipe }, bin: if c.debug { Bin::Debug } else { Bin::Release }, stdin_file_offset: None }
}

fn check_invocation(inv: &Invocation, rec: &mut Recorder) -> Result<(), String> {
    let exp = expectation(inv);
    let res = execute(inv);
    let class = judge(inv, &res, &exp).map_err(|m| format!("xt {:?} [{} stdout={:?}]: {}", inv.args, inv.bin.name(), inv.out, m))?;
    if let Expect::Run { exit, min, inputs_done, .. } = &exp {
        let nontrivial = *exit == 1 && *inputs_done >= 1;
        rec.count(if nontrivial { Some(hash_of(&inv.to_json("x").to_string())) } else { None });
        if *exit == 1 {
            rec.class(&format!("inputs_before_failure:{}", (*inputs_done).min(5)));
            if *inputs_done >= 1 && min.len() < 8192 {
                rec.class("earlier_output_below_stdout_buffer");
            }
            if min.len() >= 8192 {
                rec.class("earlier_output_above_stdout_buffer");
            }
        }
    }
    rec.class(&format!("outcome:{}", class));
    rec.class(&format!("stdout:{:?}", inv.out));
    rec.sample(|| json!({"args": inv.args, "observed": res.status(), "stdout_len": res.stdout.len(), "class": class}));
    Ok(())
}

impl Check for C15 {
    fn id(&self) -> &'static str {
        "C15"
    }
    fn level(&self) -> &'static str {
        "fault_enumeration"
    }
    fn rule(&self) -> String {
        "Generated invocations of the real binaries with 1..6 valid inputs (JSON/YAML/MessagePack/TOML files of a few bytes, a few hundred bytes, around the 8 KiB stdout buffer, or 1-3 MB) and ONE failing input planted at a drawn position among them (every position occurs), of every failure kind: missing file, directory, syntax error at depth 20, undetectable content, a value the target refuses, second use of standard input; for TOML targets any second input is the failure; all targets; stdout a pipe or a file. Oracle (reference CLI model + in-process library): exit 1 and stdout STARTS WITH the concatenation of the library's translations of all inputs before the failing one (and carries nothing the library never produced); without a failing input exit 0 and exactly the full concatenation. Unit 'full_device': the same kinds of input lists with stdout on /dev/full must never exit 0 (a successful exit promises that every byte was written). One evaluation = one process run; non-trivial = a failure after at least one successfully translated input; distinct by hash of the invocation.".into()
    }
    fn assumptions(&self) -> Vec<String> {
        vec!["the reference translations come from in-process library calls".into()]
    }
    fn needs_cli(&self) -> bool {
        true
    }
    fn units(&self, tier: Tier) -> Vec<Unit> {
        vec![Unit::gen("lists", 16, tier.pick(500, 5000)), Unit::enumerate("full_device", 2)]
    }
    fn required_classes(&self, _tier: Tier) -> Vec<&'static str> {
        vec!["outcome:ok", "outcome:failed", "inputs_before_failure:0", "inputs_before_failure:1", "inputs_before_failure:3", "earlier_output_below_stdout_buffer", "earlier_output_above_stdout_buffer", "stdout:Pipe", "stdout:File", "full_device", "stdout_file_shared_with_stderr"]
    }
    fn run_unit(&self, unit: &Unit, shard: u32, seed: u64, _tier: Tier, rec: &mut Recorder) {
        if unit.name == "full_device" {
            // "at a successful exit every byte of output has been written": with
            // stdout on a full device nothing can be written, so no run that
            // produces output may exit 0 - whether the output is below the stdout
            // buffer (only the final flush meets the error) or above it
            // "> log 2>&1": standard output is a regular file and standard error the same
            // open file description; the diagnostic of a later failing input must come
            // after the translations already written, not over them
            for to in [Fmt::Json, Fmt::Yaml, Fmt::Msgpack] {
                for size in [0u8, 1, 2, 3] {
                    for n_good in [1usize, 3] {
                        let sc = crate::cli::Scratch::new("c15s");
                        let mut args: Vec<std::ffi::OsString> = vec![format!("-t{}", to.name()).into()];
                        let mut expected: Vec<u8> = vec![];
                        for i in 0..n_good {
                            let fmt = [Fmt::Json, Fmt::Yaml, Fmt::Msgpack][i % 3];
                            let name = format!("in{}.{}", i, ext(fmt));
                            let text = good_text(fmt, &Val::Bool(true), size, i);
                            expected.extend(crate::xtapi::run_slice(&text, Some(fmt), to).out);
                            sc.file(&name, &text);
                            args.push(name.into());
                        }
                        args.push("nowhere.json".into());
                        let bin = if shard == 0 { Bin::Debug } else { Bin::Release };
                        let res = crate::cli::run_xt_full(bin, &args, &sc.dir, crate::cli::StdinSpec::Null, crate::cli::StdoutSpec::File, crate::cli::StderrSpec::SameAsStdoutFile, vec![], 60);
                        let cj = json!({"unit": "shared_log", "to": to.name(), "inputs": n_good, "size": size, "bin": bin.name()});
                        if res.code != Some(1) || !res.stdout.starts_with(&expected) {
                            rec.fail(
                                format!(
                                    "stdout a file shared with stderr (> log 2>&1), {} good input(s) then a missing one: expected exit 1 and a log that starts with the {} bytes already translated, got {} and a log of {} bytes starting {:?}",
                                    n_good,
                                    expected.len(),
                                    res.status(),
                                    res.stdout.len(),
                                    crate::util::brief_bytes(&res.stdout)
                                ),
                                cj,
                            );
                            return;
                        }
                        rec.count(Some(hash_of(&cj.to_string())));
                        rec.class("stdout_file_shared_with_stderr");
                    }
                }
            }
            for to in FORMATS {
                for n_inputs in [1usize, 2, 4] {
                    for size in [0u8, 1, 2, 3] {
                        let sc = crate::cli::Scratch::new("c15f");
                        let mut args: Vec<std::ffi::OsString> = vec![format!("-t{}", to.name()).into()];
                        let n = if to == Fmt::Toml { 1 } else { n_inputs };
                        for i in 0..n {
                            let fmt = [Fmt::Json, Fmt::Yaml, Fmt::Msgpack][i % 3];
                            let name = format!("in{}.{}", i, ext(fmt));
                            sc.file(&name, &good_text(fmt, &Val::Bool(true), size, i));
                            args.push(name.into());
                        }
                        let bin = if shard == 0 { Bin::Debug } else { Bin::Release };
                        let res = crate::cli::run_xt(bin, &args, &sc.dir, crate::cli::StdinSpec::Null, crate::cli::StdoutSpec::DevFull, vec![]);
                        let cj = json!({"unit": "full_device", "to": to.name(), "inputs": n, "size": size, "bin": bin.name()});
                        if res.code == Some(0) {
                            rec.fail(format!("stdout on a full device: xt {:?} exited 0 although none of its output could be written", args), cj);
                            return;
                        }
                        rec.count(Some(hash_of(&cj.to_string())));
                        rec.class("full_device");
                    }
                }
            }
            return;
        }
        run_prop(rec, seed, unit.cases, case_strategy(), |c| build(c).to_json("lists"), |c, r| check_invocation(&build(c), r));
    }
    fn replay(&self, case: &J) -> Result<(), String> {
        if matches!(case["unit"].as_str(), Some("full_device") | Some("shared_log")) {
            return Err("re-run ./check C15 quick (the full_device unit is a fixed enumeration)".into());
        }
        check_invocation(&Invocation::from_json(case).ok_or("bad invocation")?, &mut Recorder::default())
    }
}
