//! C09 Format detection is a transparent, total pre-selection step.

use proptest::prelude::*;
use serde_json::{json, Value as J};

use crate::checks::c02::case_json;
use crate::corpus::*;
use crate::runner::*;
use crate::sio::*;
use crate::util::*;
use crate::xtapi::*;

pub struct C09;

const UNABLE: &str = "unable to detect input format";

pub fn reader_level_error(text: &str) -> bool {
    ["control characters are not allowed", "UTF-8 octet", "invalid Unicode character", "invalid or unexpected UTF-", "UTF-8 sequence", "failed to fill whole buffer", "unexpected end of file"]
        .iter()
        .any(|p| text.contains(p))
}

/// Input-side predicate of K6: the stream holds something libyaml's input
/// reader (or xt's re-encoder in front of it) rejects: ill-formed encoding or
/// a character outside YAML's allowed set.
pub fn yaml_reader_level_defect(bytes: &[u8]) -> bool {
    let allowed = |c: char| {
        let v = c as u32;
        v == 0x09 || v == 0x0a || v == 0x0d || (0x20..=0x7e).contains(&v) || v == 0x85 || (0xa0..=0xd7ff).contains(&v) || (0xe000..=0xfffd).contains(&v) || (0x10000..=0x10ffff).contains(&v)
    };
    match xt::verif::yaml_detect_encoding(&bytes[..bytes.len().min(4)]) {
        "utf-8" => match std::str::from_utf8(bytes) {
            Ok(s) => s.chars().any(|c| !allowed(c)),
            Err(_) => true,
        },
        enc => match crate::checks::c07::decode_reference(bytes, enc) {
            Ok(s) => s.chars().any(|c| !allowed(c)),
            Err(_) => true,
        },
    }
}

/// Part 1 oracle for one input and one supply mode. Returns the detected
/// format and whether translation under detection succeeded for any target.
pub fn transparency(bytes: &[u8], mode: &Mode, rec: &mut Recorder) -> Result<(Option<Fmt>, bool), String> {
    let (f, saw_eof) = detect_eof(bytes, mode);
    let f = match f {
        Ok(f) => f,
        Err(e) => return Err(format!("[{}] detection itself failed although the input source reported no I/O error: {}", mode.class(), e)),
    };
    let mut any_ok = false;
    for to in FORMATS {
        let d = run_mode(bytes, mode, None, to);
        if d.verdict.is_panic() {
            return Err(format!("[{} detect -> {}] panic: {}", mode.class(), to.name(), d.verdict.text()));
        }
        match f {
            None => {
                if d.verdict != Verdict::Err(UNABLE.to_string()) || !d.out.is_empty() {
                    return Err(format!("[{} detect -> {}] no format detected, but the translation ended with {} instead of '{}'", mode.class(), to.name(), d.brief(), UNABLE));
                }
                rec.class("undetectable");
            }
            Some(fmt) => {
                let e = run_mode(bytes, mode, Some(fmt), to);
                any_ok |= d.verdict.is_ok();
                let same = d.verdict == e.verdict && d.out == e.out;
                if !same {
                    // K4: a reader that detection consumed up to its end of file
                    // is translated through the slice code path
                    let k4 = matches!(mode, Mode::Reader(_))
                        && saw_eof
                        && is_known_class("C09", "reader_consumed_by_detection_takes_slice_path")
                        && d.verdict.is_err()
                        && e.verdict.is_err()
                        && {
                            let es = run_slice(bytes, Some(fmt), to);
                            es.verdict == d.verdict && es.out == d.out
                        };
                    // K6: libyaml validates its raw input buffer ahead of the tokens it
                    // parses, so for a stream holding a character its reader
                    // rejects, how many documents come out before the failure (and
                    // which of several defects is reported) depends on where the read
                    // boundaries fall; after detection they fall differently.
                    let k6 = fmt == Fmt::Yaml
                        && matches!(mode, Mode::Reader(_))
                        && is_known_class("C09", "yaml_reader_level_defect_read_boundaries")
                        && d.verdict.is_err()
                        && e.verdict.is_err()
                        && prefix_comparable(&d.out, &e.out)
                        && (reader_level_error(d.verdict.text()) || reader_level_error(e.verdict.text()))
                        && yaml_reader_level_defect(bytes);
                    if k4 {
                        rec.known("reader_consumed_by_detection_takes_slice_path");
                    } else if k6 {
                        rec.known("yaml_reader_level_defect_read_boundaries");
                    } else {
                        return Err(format!(
                            "[{} -> {}] detected as {} but the outcome differs from naming it: detected {} / explicit {}",
                            mode.class(),
                            to.name(),
                            fmt.name(),
                            d.brief(),
                            e.brief()
                        ));
                    }
                }
                rec.class(&format!("detected:{}", fmt.name()));
            }
        }
        let nontrivial = f.is_some();
        rec.count(if nontrivial { Some(hash_bytes(&[bytes, to.name().as_bytes(), mode.class().as_bytes()])) } else { None });
    }
    Ok((f, any_ok))
}

pub fn check_bytes(bytes: &[u8], family: &str, sched: &Sched, rec: &mut Recorder) -> Result<(), String> {
    let (fs, ok_s) = transparency(bytes, &Mode::Slice, rec)?;
    let (fr, ok_r) = transparency(bytes, &Mode::Reader(sched.clone()), rec)?;
    if (ok_s || ok_r) && fs != fr {
        // K6, detection flavour: for a stream holding a character the YAML input
        // reader rejects, whether the YAML trial sees its first document before
        // libyaml's raw buffer reaches that character depends on the read sizes.
        // Licensed only when exactly one mode says YAML, that mode then fails to
        // translate, and the input-side predicate holds.
        let yaml_side_failed = (fs == Some(Fmt::Yaml) && !ok_s) || (fr == Some(Fmt::Yaml) && !ok_r);
        if yaml_side_failed && (fs == Some(Fmt::Yaml)) != (fr == Some(Fmt::Yaml)) && is_known_class("C09", "yaml_reader_level_defect_read_boundaries") && yaml_reader_level_defect(bytes) {
            rec.known("yaml_reader_level_defect_read_boundaries");
            return Ok(());
        }
        return Err(format!(
            "input translates successfully under detection but is detected as {} from a slice and {} from a reader[{}]",
            opt_name(fs),
            opt_name(fr),
            sched.class()
        ));
    }
    if ok_s || ok_r {
        rec.class("detected_and_translated");
    }
    rec.class(&format!("family:{}", family));
    rec.class(&format!("sched:{}", sched.class()));
    rec.sample(|| json!({"family": family, "detected_slice": opt_name(fs), "detected_reader": opt_name(fr), "sched": sched.class(), "input": brief_bytes(bytes)}));
    Ok(())
}

fn c09_bytes() -> BoxedStrategy<BytesCase> {
    prop_oneof![
        8 => bytes_strategy(),
        // valid YAML whose first character is in U+0700..U+07FF (first UTF-8 byte 0xDC..0xDF)
        1 => (0x700u32..0x800, "[a-z]{0,6}", any::<bool>()).prop_map(|(c, w, seq)| {
            let ch = char::from_u32(c).unwrap();
            let text = if seq { format!("- \"{}{}\"\n- 2\n", ch, w) } else { format!("\"{}{}\": 1\n", ch, w) };
            let text = if ch.is_alphabetic() && !seq { format!("{}{}: 1\n", ch, w) } else { text };
            BytesCase { bytes: text.into_bytes(), family: "yaml_first_char_07xx", origin: Some(Fmt::Yaml) }
        }),
        // truncated MessagePack collections
        2 => (stream_strategy(2, crate::model::Shape::COMMON_NULL), any::<u16>()).prop_map(|(s, cut)| {
            let bytes = if s.fmt == Fmt::Msgpack { s.bytes } else { crate::wr_msgpack::write_stream(&s.docs, &[Style::canonical()]) };
            let mut bytes = if bytes.first().map_or(false, |b| matches!(b, 0x80..=0x9f | 0xdc..=0xdf)) { bytes } else { let mut b = vec![0x91]; b.extend(bytes); b };
            let n = (cut as usize * (bytes.len() + 1)) >> 16;
            bytes.truncate(n.max(1));
            BytesCase { bytes, family: "truncated_msgpack_collection", origin: Some(Fmt::Msgpack) }
        }),
        // inputs that several formats accept
        1 => proptest::sample::select(vec![
            "a = 1\n", "[a]\n", "[a]\nb = 1\n", "{}", "[]", "[1, 2]", "{\"a\": 1}", "a: 1", "- a", "a = \"b: c\"\n", "\"a\"", "1", "true", "null", "# c\n[x]\n",
            "[a]\n[b]\n", "a = [1]\n", "\"a\" = 1\n", "'a' = 1\n", "a.b = 1\n", "[[a]]\n", "x = {y = 1}\n", "---\n[]\n", "--- {}\n", "[\"a\"]", "[\"a\"]\n\"b\"",
        ]).prop_map(|t| BytesCase { bytes: t.as_bytes().to_vec(), family: "multi_format_valid", origin: None }),
    ]
    .boxed()
}

// ---------------------------------------------------------------------------
// Part 2: the rewindable handle, model-based

#[derive(Clone, Debug, PartialEq)]
pub enum HOp {
    Borrow,
    Read(usize),
    Prefix(usize),
}

#[derive(Clone, Debug, PartialEq)]
pub enum Ending {
    /// take ownership as streaming formats do, then read with these sizes
    Owned(Vec<usize>),
    /// take ownership as slice-only formats do
    Cow,
}

#[derive(Clone, Debug)]
pub struct Program {
    pub data: Vec<u8>,
    pub cuts: Vec<usize>,
    pub ops: Vec<HOp>,
    pub ending: Ending,
    pub from_slice: bool,
}

impl Program {
    pub fn to_json(&self) -> J {
        let ops: Vec<J> = self
            .ops
            .iter()
            .map(|o| match o {
                HOp::Borrow => json!("borrow"),
                HOp::Read(n) => json!({ "read": n }),
                HOp::Prefix(n) => json!({ "prefix": n }),
            })
            .collect();
        json!({"unit": "handle", "data": hex(&self.data), "cuts": self.cuts, "ops": ops, "from_slice": self.from_slice,
               "ending": match &self.ending { Ending::Cow => json!("cow"), Ending::Owned(s) => json!({"owned": s}) }})
    }
    pub fn from_json(j: &J) -> Option<Program> {
        let ops = j["ops"]
            .as_array()?
            .iter()
            .map(|o| {
                if o.as_str() == Some("borrow") {
                    Some(HOp::Borrow)
                } else if let Some(n) = o.get("read") {
                    Some(HOp::Read(n.as_u64()? as usize))
                } else {
                    Some(HOp::Prefix(o.get("prefix")?.as_u64()? as usize))
                }
            })
            .collect::<Option<Vec<_>>>()?;
        let ending = if j["ending"].as_str() == Some("cow") {
            Ending::Cow
        } else {
            Ending::Owned(j["ending"]["owned"].as_array()?.iter().map(|x| x.as_u64().map(|x| x as usize)).collect::<Option<Vec<_>>>()?)
        };
        Some(Program {
            data: unhex(j["data"].as_str()?)?,
            cuts: j["cuts"].as_array()?.iter().map(|x| x.as_u64().map(|x| x as usize)).collect::<Option<Vec<_>>>()?,
            ops,
            ending,
            from_slice: j["from_slice"].as_bool().unwrap_or(false),
        })
    }
}

/// Runs a program against the real handle and checks every observation against
/// the reference model (the plain byte string).
pub fn run_program(p: &Program) -> Result<(), String> {
    use xt::verif::{Handle, Owned, RefOp, RefResult};
    let d = &p.data;
    let mut handle = if p.from_slice { Handle::from_slice(d) } else { Handle::from_reader(SchedReader::new(d, Sched::Cuts(p.cuts.clone()))) };
    // group ops into borrows
    let mut groups: Vec<Vec<HOp>> = vec![];
    for op in &p.ops {
        match op {
            HOp::Borrow => groups.push(vec![]),
            other => {
                if groups.is_empty() {
                    groups.push(vec![]);
                }
                groups.last_mut().unwrap().push(other.clone());
            }
        }
    }
    for (gi, g) in groups.iter().enumerate() {
        let ops: Vec<RefOp> = g
            .iter()
            .map(|o| match o {
                HOp::Read(n) => RefOp::Read(*n),
                HOp::Prefix(n) => RefOp::Prefix(*n),
                HOp::Borrow => unreachable!(),
            })
            .collect();
        let (is_slice, results) = handle.borrow(&ops);
        let mut pos = 0usize; // every borrow starts at position 0
        for (oi, (op, res)) in g.iter().zip(results).enumerate() {
            let at = format!("borrow #{} op #{} {:?}", gi, oi, op);
            match (op, res) {
                (HOp::Read(n), RefResult::Read(r)) => {
                    let r = r.map_err(|e| format!("{}: read failed although the source never fails: {}", at, e))?;
                    if r.len() > *n {
                        return Err(format!("{}: returned {} bytes for a {}-byte buffer", at, r.len(), n));
                    }
                    if pos + r.len() > d.len() || r[..] != d[pos..pos + r.len()] {
                        return Err(format!("{}: returned {:?} at position {}, the stream is {:?}", at, r, pos, d));
                    }
                    if r.is_empty() && *n > 0 && pos < d.len() {
                        return Err(format!("{}: returned 0 bytes at position {} of {}", at, pos, d.len()));
                    }
                    pos += r.len();
                }
                (HOp::Prefix(n), RefResult::Prefix(r)) => {
                    let r = r.map_err(|e| format!("{}: prefix failed although the source never fails: {}", at, e))?;
                    if r.len() > d.len() || r[..] != d[..r.len()] {
                        return Err(format!("{}: returned {:?}, not a prefix of {:?}", at, r, d));
                    }
                    if r.len() < (*n).min(d.len()) {
                        return Err(format!("{}: returned only {} bytes of {}", at, r.len(), d.len()));
                    }
                    if is_slice && r.len() != d.len() {
                        return Err(format!("{}: a slice view must be the whole input, got {} of {} bytes", at, r.len(), d.len()));
                    }
                }
                _ => return Err(format!("{}: result kind mismatch", at)),
            }
        }
    }
    match &p.ending {
        Ending::Cow => {
            let got = handle.into_cow().map_err(|e| format!("into_cow failed: {}", e))?;
            if got != *d {
                return Err(format!("after the program, the slice-only owner sees {:?} instead of {:?}", got, d));
            }
        }
        Ending::Owned(sizes) => match handle.into_owned() {
            Owned::Slice(got) => {
                if got != *d {
                    return Err(format!("after the program, the owner (slice) sees {:?} instead of {:?}", got, d));
                }
            }
            Owned::Reader(mut r) => {
                use std::io::Read;
                let mut got = vec![];
                let mut i = 0;
                let mut zero_reads = 0;
                loop {
                    let n = sizes[i % sizes.len()].max(1);
                    i += 1;
                    let mut buf = vec![0u8; n];
                    let k = r.read(&mut buf).map_err(|e| format!("owner read failed: {}", e))?;
                    if k == 0 {
                        zero_reads += 1;
                        if zero_reads >= 2 {
                            break;
                        }
                        continue;
                    }
                    zero_reads = 0;
                    got.extend_from_slice(&buf[..k]);
                    if got.len() > d.len() + 8 {
                        break;
                    }
                }
                if got != *d {
                    return Err(format!("after the program, the owner (reader) sees {:?} instead of {:?}", got, d));
                }
            }
        },
    }
    Ok(())
}

fn op_universe(dlen: usize) -> Vec<HOp> {
    let mut v = vec![HOp::Borrow];
    for n in 0..=dlen + 2 {
        v.push(HOp::Read(n));
        v.push(HOp::Prefix(n));
    }
    v
}

fn program_strategy() -> BoxedStrategy<Program> {
    (
        proptest::collection::vec(any::<u8>(), 0..200),
        proptest::collection::vec(0usize..220, 0..10),
        proptest::collection::vec(
            prop_oneof![
                2 => Just(HOp::Borrow),
                3 => prop_oneof![0usize..12, 0usize..300, Just(8192usize)].prop_map(HOp::Read),
                3 => prop_oneof![0usize..12, 0usize..300, Just(1usize << 21)].prop_map(HOp::Prefix),
            ],
            0..40,
        ),
        prop_oneof![Just(Ending::Cow), proptest::collection::vec(1usize..64, 1..4).prop_map(Ending::Owned)],
        proptest::bool::weighted(0.1),
    )
        .prop_map(|(data, mut cuts, ops, ending, from_slice)| {
            cuts.sort();
            cuts.dedup();
            Program { data, cuts, ops, ending, from_slice }
        })
        .boxed()
}

/// Detection has no memory: an input translated through a Translator that has
/// already translated another input (no format named for either) gives the
/// verdict and bytes it gives on a fresh Translator.
pub fn check_sequence(a: &[u8], b: &[u8], mode: &Mode, rec: &mut Recorder) -> Result<(), String> {
    for to in [Fmt::Json, Fmt::Yaml, Fmt::Msgpack] {
        let alone_a = run_mode(a, mode, None, to);
        if !alone_a.verdict.is_ok() {
            rec.class("sequence:first_input_fails");
            continue;
        }
        let alone_b = run_mode(b, mode, None, to);
        if alone_b.verdict.is_panic() {
            return Err(format!("panic: {}", alone_b.verdict.text()));
        }
        let log = std::rc::Rc::new(std::cell::RefCell::new(Vec::<u8>::new()));
        struct W(std::rc::Rc<std::cell::RefCell<Vec<u8>>>);
        impl std::io::Write for W {
            fn write(&mut self, buf: &[u8]) -> std::io::Result<usize> {
                self.0.borrow_mut().extend_from_slice(buf);
                Ok(buf.len())
            }
            fn flush(&mut self) -> std::io::Result<()> {
                Ok(())
            }
        }
        let (va, vb);
        {
            let mut t = xt::Translator::new(W(log.clone()), to.xt());
            va = translator_call(&mut t, a, mode, None);
            vb = if va.is_ok() { translator_call(&mut t, b, mode, None) } else { Verdict::Ok };
        }
        if !va.is_ok() {
            return Err(format!("[{} -> {}] the first input translates alone but not as the first input of a Translator: {}", mode.class(), to.name(), va.brief()));
        }
        let mut expected = alone_a.out.clone();
        expected.extend_from_slice(&alone_b.out);
        let got = log.borrow().clone();
        if vb != alone_b.verdict || got != expected {
            return Err(format!(
                "[{} -> {}] an input translated after another one through the same Translator (no format named) differs from translating it alone: after {:?} the input {:?} gave {} / output {:?}; alone {} / output {:?}",
                mode.class(),
                to.name(),
                brief_bytes(a),
                brief_bytes(b),
                vb.brief(),
                brief_bytes(&got[alone_a.out.len().min(got.len())..]),
                alone_b.verdict.brief(),
                brief_bytes(&alone_b.out)
            ));
        }
        rec.count(Some(hash_bytes(&[a, b, to.name().as_bytes(), mode.class().as_bytes()])));
        rec.class("sequence:second_input_checked");
    }
    Ok(())
}

impl Check for C09 {
    fn id(&self) -> &'static str {
        "C09"
    }
    fn level(&self) -> &'static str {
        "exploration"
    }
    fn rule(&self) -> String {
        "Part 1 (units gen/tokens): for generated byte strings (C02 corpora plus truncated MessagePack collections, YAML starting with U+0700..U+07FF, multi-format-valid texts, all token sequences up to length L) and both supply modes, the hook reports the detected format F; required: detection itself returns Ok; if F is a format, translating with no format named gives the identical verdict, output bytes and error text as naming F, for all 4 targets; if F is none, the error is exactly 'unable to detect input format'; if the input translates successfully under detection, F is the same from a slice and from a scheduled reader. One evaluation = one (bytes, mode, target); non-trivial = a format was detected; distinct by (bytes, mode class, target). Part 2 (units handle_exhaustive/handle_random): programs of borrows, partial reads, prefix requests and either way of taking ownership are run against the real input handle over data D and a source chunking and every observation is compared with the reference model (the byte string D): exhaustive for small |D|, all chunkings and all programs up to a length bound, random beyond.".into()
    }
    fn assumptions(&self) -> Vec<String> {
        vec![
            "the detected format is observed through the verif hook (detect_slice / detect_reader), which calls the crate's own detect_format".into(),
            "explicit and detected runs are compared in the same supply mode".into(),
        ]
    }
    fn units(&self, tier: Tier) -> Vec<Unit> {
        vec![
            Unit::gen("gen", 16, tier.pick(25_000, 200_000)),
            Unit::enumerate("tokens", 16),
            Unit::enumerate("handle_exhaustive", 16),
            Unit::gen("handle_random", 8, tier.pick(60_000, 600_000)),
            Unit::enumerate("sizes", 6),
            Unit::gen("sequence", 16, tier.pick(4000, 40_000)),
        ]
    }
    fn required_classes(&self, _tier: Tier) -> Vec<&'static str> {
        vec!["detected:json", "detected:msgpack", "detected:yaml", "detected:toml", "undetectable", "family:truncated_msgpack_collection", "family:yaml_first_char_07xx", "family:multi_format_valid", "detected_and_translated", "handle:reader", "handle:slice", "handle:became_slice", "family:toml_below_2MiB_cutoff", "sequence:second_input_checked"]
    }
    fn run_unit(&self, unit: &Unit, shard: u32, seed: u64, tier: Tier, rec: &mut Recorder) {
        match unit.name {
            "sequence" => run_prop(
                rec,
                seed,
                unit.cases,
                (c09_bytes(), c09_bytes(), sched_strategy(), any::<bool>()),
                |(a, b, s, slice)| json!({"unit": "sequence", "a": hex(&a.bytes), "b": hex(&b.bytes), "sched": s.to_json(), "slice": slice}),
                |(a, b, s, slice), r| check_sequence(&a.bytes, &b.bytes, &if *slice { Mode::Slice } else { Mode::Reader(s.clone()) }, r),
            ),
            "sizes" => {
                // TOML from a reader is buffered for detection up to (excluding) 2 MiB:
                // every size below that must be detected exactly as from a slice
                let sizes = [1_000_000usize, 2_000_000, 2_000_100, 2_050_000, 2_097_151 - 4096, 2_097_151];
                let bytes = crate::checks::c02::toml_of_size(sizes[shard as usize % sizes.len()]);
                for sched in [Sched::Fixed(65536), Sched::Full, Sched::Fixed(8191)] {
                    rec.trace_case(|| json!({"unit": "sizes", "size": bytes.len()}));
                    rec.class("family:toml_below_2MiB_cutoff");
                    if let Err(m) = check_bytes(&bytes, "toml_below_2MiB_cutoff", &sched, rec) {
                        rec.fail(m, case_json("gen", &bytes, None, &sched, None));
                        return;
                    }
                }
            }
            "gen" => run_prop(
                rec,
                seed,
                unit.cases,
                (c09_bytes(), sched_strategy()),
                |(b, s)| case_json("gen", &b.bytes, None, s, None),
                |(b, s), r| check_bytes(&b.bytes, b.family, s, r),
            ),
            "tokens" => {
                let max_len = tier.pick(3, 4);
                if shard == 0 {
                    // nests just beyond each format's depth limit, no format named:
                    // a candidate that gives up on depth is skipped like any other
                    let mut deep: Vec<Vec<u8>> = vec![];
                    for d in [1025usize, 1100] {
                        let mut a = vec![0x91u8; d];
                        a.push(0xc0);
                        deep.push(a);
                        let mut m = vec![];
                        for _ in 0..d {
                            m.extend_from_slice(&[0x81, 0xa1, b'k']);
                        }
                        m.push(0xc0);
                        deep.push(m);
                    }
                    deep.push([vec![b'['; 129], vec![b']'; 129]].concat());
                    deep.push([vec![b'['; 200], vec![b']'; 200]].concat());
                    for bytes in deep {
                        for sched in [Sched::Full, Sched::Fixed(1)] {
                            if let Err(m) = check_bytes(&bytes, "beyond_depth_limit", &sched, rec) {
                                rec.fail(m, case_json("tokens", &bytes, None, &sched, None));
                                return;
                            }
                        }
                    }
                }
                for fmt in FORMATS {
                    let total = token_seq_count(fmt, max_len);
                    let mut idx = shard as u64;
                    while idx < total {
                        let bytes = token_seq(fmt, idx);
                        let sched = if (idx / unit.shards as u64) % 2 == 0 { Sched::Fixed(1) } else { Sched::Fixed(2) };
                        if rec.tracing() {
                            rec.trace_case(|| case_json("tokens", &bytes, None, &sched, None));
                        }
                        if let Err(m) = check_bytes(&bytes, "token_enum", &sched, rec) {
                            rec.fail(m, case_json("tokens", &bytes, None, &sched, None));
                            return;
                        }
                        idx += unit.shards as u64;
                    }
                }
            }
            "handle_exhaustive" => {
                let max_d = tier.pick(3, 4);
                let max_ops = tier.pick(3, 4);
                let mut counter = 0u64;
                for dlen in 0..=max_d {
                    let data: Vec<u8> = (0..dlen as u8).map(|i| b'a' + i).collect();
                    let ops = op_universe(dlen);
                    let n_chunkings = if dlen <= 1 { 1 } else { 1usize << (dlen - 1) };
                    let endings = [Ending::Cow, Ending::Owned(vec![1]), Ending::Owned(vec![dlen + 1]), Ending::Owned(vec![2, 1])];
                    // programs of length 0..=max_ops over the op universe
                    let mut lens = vec![];
                    for l in 0..=max_ops {
                        lens.push(l);
                    }
                    for l in lens {
                        let total = (ops.len() as u64).pow(l as u32);
                        for pi in 0..total {
                            counter += 1;
                            if counter % unit.shards as u64 != shard as u64 {
                                continue;
                            }
                            let mut prog = vec![];
                            let mut x = pi;
                            for _ in 0..l {
                                prog.push(ops[(x % ops.len() as u64) as usize].clone());
                                x /= ops.len() as u64;
                            }
                            for ch in 0..n_chunkings {
                                let cuts: Vec<usize> = (1..dlen).filter(|i| ch >> (i - 1) & 1 == 1).collect();
                                for ending in &endings {
                                    let p = Program { data: data.clone(), cuts: cuts.clone(), ops: prog.clone(), ending: ending.clone(), from_slice: false };
                                    if rec.tracing() {
                                        rec.trace_case(|| p.to_json());
                                    }
                                    let nontrivial = prog.iter().any(|o| matches!(o, HOp::Read(n) | HOp::Prefix(n) if *n > 0)) && dlen > 0;
                                    rec.count(if nontrivial { Some(hash_of(&format!("{:?}{:?}{:?}{:?}", data, cuts, prog, ending))) } else { None });
                                    rec.class("handle:reader");
                                    if let Err(m) = run_program(&p) {
                                        rec.fail(m, p.to_json());
                                        return;
                                    }
                                }
                            }
                        }
                    }
                }
                if shard == 0 {
                    // slice-backed handles: every op over a small data set
                    for dlen in 0..=3usize {
                        let data: Vec<u8> = (0..dlen as u8).map(|i| b'a' + i).collect();
                        let ops = op_universe(dlen);
                        for a in &ops {
                            for b in &ops {
                                for ending in [Ending::Cow, Ending::Owned(vec![1])] {
                                    let p = Program { data: data.clone(), cuts: vec![], ops: vec![a.clone(), b.clone()], ending, from_slice: true };
                                    rec.count(Some(hash_of(&format!("slice{:?}", p.to_json().to_string()))));
                                    rec.class("handle:slice");
                                    if let Err(m) = run_program(&p) {
                                        rec.fail(m, p.to_json());
                                        return;
                                    }
                                }
                            }
                        }
                    }
                }
            }
            "handle_random" => run_prop(rec, seed, unit.cases, program_strategy(), |p| p.to_json(), |p, r| {
                let nontrivial = p.ops.iter().any(|o| matches!(o, HOp::Read(n) | HOp::Prefix(n) if *n > 0)) && !p.data.is_empty();
                r.count(if nontrivial { Some(hash_of(&p.to_json().to_string())) } else { None });
                r.class(if p.from_slice { "handle:slice" } else { "handle:reader" });
                // did some borrow see the source's EOF, so that later borrows are slices?
                if !p.from_slice && p.ops.iter().any(|o| matches!(o, HOp::Prefix(n) | HOp::Read(n) if *n > p.data.len())) {
                    r.class("handle:became_slice");
                }
                r.sample(|| p.to_json());
                run_program(p)
            }),
            other => panic!("unknown unit {}", other),
        }
    }
    fn replay(&self, case: &J) -> Result<(), String> {
        if case["unit"].as_str() == Some("sequence") {
            let a = unhex(case["a"].as_str().ok_or("no a")?).ok_or("bad hex")?;
            let b = unhex(case["b"].as_str().ok_or("no b")?).ok_or("bad hex")?;
            let mode = if case["slice"].as_bool().unwrap_or(true) { Mode::Slice } else { Mode::Reader(Sched::from_json(&case["sched"]).ok_or("bad sched")?) };
            return check_sequence(&a, &b, &mode, &mut Recorder::default());
        }
        if case["unit"].as_str() == Some("handle") {
            return run_program(&Program::from_json(case).ok_or("bad program")?);
        }
        let bytes = unhex(case["bytes"].as_str().ok_or("no bytes")?).ok_or("bad hex")?;
        let sched = Sched::from_json(&case["sched"]).ok_or("bad sched")?;
        let mut rec = Recorder::default();
        check_bytes(&bytes, "replay", &sched, &mut rec)
    }
    fn confirm_known(&self, k: &Known) -> bool {
        let to = k.example.get("to").and_then(|s| s.as_str()).and_then(Fmt::from_name).unwrap_or(Fmt::Json);
        let _ = to;
        match k.class.as_str() {
            "reader_consumed_by_detection_takes_slice_path" => {
                let text = k.example.get("input").and_then(|s| s.as_str()).unwrap_or("");
                let mut rec = Recorder::default();
                matches!(transparency(text.as_bytes(), &Mode::Reader(Sched::Full), &mut rec), Ok(_)) && rec.excluded_known.get(&k.class).copied().unwrap_or(0) > 0
            }
            "yaml_reader_level_defect_read_boundaries" => {
                // the disagreement depends on the phase of the read schedule:
                // search a small family of schedules for the stored input
                let bytes = k.example.get("input_hex").and_then(|s| s.as_str()).and_then(unhex).unwrap_or_default();
                for a in 1..24usize {
                    for b in [1usize, 2, 3, 5, 8, 13, 21, 34] {
                        let mut rec = Recorder::default();
                        let mode = Mode::Reader(Sched::Sizes(vec![a, b]));
                        if matches!(transparency(&bytes, &mode, &mut rec), Ok(_)) && rec.excluded_known.get(&k.class).copied().unwrap_or(0) > 0 {
                            return true;
                        }
                    }
                }
                false
            }
            _ => false,
        }
    }
}
