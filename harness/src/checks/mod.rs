pub mod c01;
pub mod c02;
pub mod c04;

use crate::runner::Check;

pub fn all() -> Vec<&'static dyn Check> {
    vec![&c01::C01, &c02::C02, &c04::C04]
}
