pub mod c01;

use crate::runner::Check;

pub fn all() -> Vec<&'static dyn Check> {
    vec![&c01::C01]
}
