pub mod c01;
pub mod c02;
pub mod c03;
pub mod c04;
pub mod c05;
pub mod c06;
pub mod c07;
pub mod c08;
pub mod c09;
pub mod c10;
pub mod c11;
pub mod c12;
pub mod c13;
pub mod c14;
pub mod c15;
pub mod c16;
pub mod c17;
pub mod c18;

use crate::runner::Check;

pub fn all() -> Vec<&'static dyn Check> {
    vec![&c01::C01, &c02::C02, &c03::C03, &c04::C04, &c05::C05, &c06::C06, &c07::C07, &c08::C08, &c09::C09, &c10::C10, &c11::C11, &c12::C12, &c13::C13, &c14::C14, &c15::C15, &c16::C16, &c17::C17, &c18::C18]
}
