//! C03 Multi-document and multi-input output is the ordered concatenation.

use proptest::prelude::*;
use serde_json::{json, Value as J};

use crate::checks::c01::compare;
use crate::model::*;
use crate::oracle::*;
use crate::runner::*;
use crate::util::*;
use crate::xtapi::*;

pub struct C03;

#[derive(Clone, Debug)]
pub struct DocSpec {
    pub v: Val,
    pub style: Style,
    pub sep: u8,
    /// when set, the document gets a padding string so that it ends at
    /// 8192*m + delta in its input
    pub boundary: Option<(u8, i8)>,
}

#[derive(Clone, Debug)]
pub struct InputSpec {
    pub fmt: Fmt,
    pub docs: Vec<DocSpec>,
    pub mode: Mode,
    /// leave the source format to detection when detection (hook) picks `fmt`
    pub detect: bool,
    /// text of an input without documents: 0 empty, 1 blank lines, 2 comments only (YAML/TOML)
    pub empty_variant: u8,
}

#[derive(Clone, Debug)]
pub struct History {
    pub inputs: Vec<InputSpec>,
    pub to: Fmt,
}

fn small_doc() -> BoxedStrategy<Val> {
    prop_oneof![
        4 => scalar_strategy(Shape::COMMON_NULL),
        2 => Just(Val::Seq(vec![])),
        2 => Just(Val::Map(vec![])),
        4 => val_strategy(Shape { depth: 3, size: 10, ..Shape::COMMON_NULL }),
        1 => doc_strategy(Shape::COMMON_NULL),
    ]
    .boxed()
}

fn docspec() -> BoxedStrategy<DocSpec> {
    (small_doc(), style_strategy(), any::<u8>(), proptest::option::weighted(0.08, (0u8..3, -3i8..=3))).prop_map(|(v, style, sep, boundary)| DocSpec { v, style, sep, boundary }).boxed()
}

fn input_spec() -> BoxedStrategy<InputSpec> {
    (
        prop_oneof![3 => Just(Fmt::Json), 3 => Just(Fmt::Msgpack), 4 => Just(Fmt::Yaml), 1 => Just(Fmt::Toml)],
        prop_oneof![
            6 => proptest::collection::vec(docspec(), 0..6),
            2 => proptest::collection::vec(docspec(), 6..40),
            1 => proptest::collection::vec(docspec(), 40..300),
        ],
        mode_strategy(),
        proptest::bool::weighted(0.35),
        0u8..3,
    )
        .prop_map(|(fmt, docs, mode, detect, empty_variant)| InputSpec { fmt, docs, mode, detect, empty_variant })
        .boxed()
}

fn history() -> BoxedStrategy<History> {
    (proptest::collection::vec(input_spec(), 1..5), prop_oneof![Just(Fmt::Json), Just(Fmt::Msgpack), Just(Fmt::Yaml)]).prop_map(|(inputs, to)| History { inputs, to }).boxed()
}

/// One document as it appears in an input: the bytes contributed to the
/// stream, the bytes of the document alone, and the model value.
pub struct Piece {
    pub in_stream: Vec<u8>,
    pub alone: Vec<u8>,
    pub model: Val,
}

fn write_piece(fmt: Fmt, v: &Val, style: &Style, sep: u8, index: usize, prev: Option<&Val>, prev_closed: &mut bool) -> Piece {
    match fmt {
        Fmt::Json => {
            let body = crate::wr_json::write_doc(v, style);
            let body = body.trim().to_string(); // separators are explicit here
            let self_delim = |x: &Val| matches!(x, Val::Seq(_) | Val::Map(_) | Val::Str(_));
            let sep_text = if index == 0 {
                ["", " ", "\n"][sep as usize % 3]
            } else {
                match sep % 6 {
                    // documents may touch when at least one of the two neighbours
                    // delimits itself: `[1]2`, `1[2]`, `true"x"` (two bare scalars
                    // may not: K1)
                    0 if prev.map_or(false, self_delim) || (prev.is_some() && self_delim(v)) => "",
                    0 | 1 => "\n",
                    2 => " ",
                    3 => "\n\n",
                    4 => "\r\n",
                    _ => " \t\n",
                }
            };
            Piece { in_stream: format!("{}{}", sep_text, body).into_bytes(), alone: body.into_bytes(), model: v.clone() }
        }
        Fmt::Msgpack => {
            let b = crate::wr_msgpack::write_doc(v, style);
            Piece { in_stream: b.clone(), alone: b, model: v.clone() }
        }
        Fmt::Yaml => {
            let mut body = crate::wr_yaml::write_doc_body(v, style, index > 0, *prev_closed);
            match sep % 5 {
                1 => {
                    body.push_str("...\n");
                    *prev_closed = true;
                }
                2 => {
                    body.push_str("... # end\n");
                    *prev_closed = true;
                }
                3 => {
                    body.push_str("# between\n");
                    *prev_closed = false;
                }
                4 => {
                    body.push_str("...\n\n");
                    *prev_closed = true;
                }
                _ => *prev_closed = false,
            }
            Piece { in_stream: body.clone().into_bytes(), alone: body.into_bytes(), model: v.clone() }
        }
        Fmt::Toml => {
            let (t, m) = crate::wr_toml::write_doc(v, style);
            Piece { in_stream: t.clone().into_bytes(), alone: t.into_bytes(), model: m }
        }
    }
}

/// Builds the pieces of one input, applying boundary padding.
pub fn build_input(spec: &InputSpec) -> Vec<Piece> {
    let mut pieces: Vec<Piece> = vec![];
    let mut offset = 0usize;
    let mut prev_closed = true;
    let docs: Vec<&DocSpec> = if spec.fmt == Fmt::Toml { spec.docs.iter().take(1).collect() } else { spec.docs.iter().collect() };
    for (i, d) in docs.iter().enumerate() {
        let base = if spec.fmt == Fmt::Toml { strip_for_toml(table_rooted(d.v.clone())) } else { d.v.clone() };
        let prev_model = pieces.last().map(|p| p.model.clone());
        let mut pc = prev_closed;
        let mut piece = write_piece(spec.fmt, &base, &d.style, d.sep, i, prev_model.as_ref(), &mut pc);
        if let (Some((m, delta)), true) = (d.boundary, spec.fmt != Fmt::Toml) {
            // pad so that the document ends at 8192*k + delta
            let mut pad = 0usize;
            for _ in 0..4 {
                let padded = Val::Map(vec![(Val::s("pad"), Val::Str("x".repeat(pad))), (Val::s("v"), base.clone())]);
                let mut pc2 = prev_closed;
                piece = write_piece(spec.fmt, &padded, &Style::canonical(), d.sep, i, prev_model.as_ref(), &mut pc2);
                pc = pc2;
                let end = offset + piece.in_stream.len();
                let target_mod = (8192i64 + delta as i64) as usize % 8192;
                let want_extra = (target_mod + 8192 - end % 8192) % 8192;
                if want_extra == 0 && end >= 8192 * (m as usize) {
                    break;
                }
                pad += want_extra + if pad == 0 { 8192 * (m as usize) } else { 0 };
            }
        }
        prev_closed = pc;
        offset += piece.in_stream.len();
        pieces.push(piece);
    }
    pieces
}

fn history_json(h: &History) -> J {
    json!({"unit": "history", "to": h.to.name(), "inputs": h.inputs.iter().map(|i| json!({
        "fmt": i.fmt.name(), "mode": i.mode.to_json(), "detect": i.detect, "empty_variant": i.empty_variant,
        "docs": i.docs.iter().map(|d| json!({"v": d.v.to_json(), "style": d.style.to_json(), "sep": d.sep, "boundary": d.boundary.map(|(m, dl)| json!([m, dl]))})).collect::<Vec<_>>()
    })).collect::<Vec<_>>()})
}

fn history_from_json(j: &J) -> Option<History> {
    let inputs = j["inputs"]
        .as_array()?
        .iter()
        .map(|i| {
            Some(InputSpec {
                fmt: Fmt::from_name(i["fmt"].as_str()?)?,
                mode: Mode::from_json(&i["mode"])?,
                detect: i["detect"].as_bool().unwrap_or(false),
                empty_variant: i["empty_variant"].as_u64().unwrap_or(0) as u8,
                docs: i["docs"]
                    .as_array()?
                    .iter()
                    .map(|d| {
                        Some(DocSpec {
                            v: Val::from_json(&d["v"])?,
                            style: Style::from_json(&d["style"])?,
                            sep: d["sep"].as_u64()? as u8,
                            boundary: d["boundary"].as_array().and_then(|a| Some((a.first()?.as_u64()? as u8, a.get(1)?.as_i64()? as i8))),
                        })
                    })
                    .collect::<Option<Vec<_>>>()?,
            })
        })
        .collect::<Option<Vec<_>>>()?;
    Some(History { inputs, to: Fmt::from_name(j["to"].as_str()?)? })
}

pub fn check_history(h: &History, rec: &mut Recorder) -> Result<(), String> {
    // build inputs; validate each with the independent reader
    let mut built: Vec<(Fmt, Mode, Vec<Piece>)> = vec![];
    let mut texts: Vec<Vec<u8>> = vec![];
    let mut froms: Vec<Option<Fmt>> = vec![];
    for spec in &h.inputs {
        let pieces = build_input(spec);
        let mut text: Vec<u8> = pieces.iter().flat_map(|p| p.in_stream.iter().copied()).collect();
        if pieces.is_empty() && matches!(spec.fmt, Fmt::Yaml | Fmt::Json) {
            // an input without documents, in every spelling the format allows
            text = match (spec.fmt, spec.empty_variant) {
                (_, 0) => vec![],
                (_, 1) => b"\n \n".to_vec(),
                (Fmt::Yaml, _) => b"# only a comment\n\n# another\n".to_vec(),
                _ => b" \t\r\n".to_vec(),
            };
        }
        let models: Vec<Val> = pieces.iter().map(|p| p.model.clone()).collect();
        let ok = if spec.fmt == Fmt::Toml && pieces.is_empty() { true } else { matches!(read_any(&text, spec.fmt), Ok(d) if d == models) };
        let ok = ok && pieces.iter().all(|p| matches!(read_any(&p.alone, spec.fmt), Ok(d) if d.len() == 1 && d[0] == p.model));
        if !ok {
            rec.reject();
            return Ok(());
        }
        // leave the format to detection when detection is defined to pick it
        let mut from = Some(spec.fmt);
        if spec.detect && !pieces.is_empty() {
            if detect(&text, &Mode::Slice) == Ok(Some(spec.fmt)) && detect(&text, &spec.mode) == Ok(Some(spec.fmt)) {
                from = None;
            }
        }
        built.push((spec.fmt, spec.mode.clone(), pieces));
        texts.push(text);
        froms.push(from);
    }
    let to = h.to;
    // arrangement 1: one call per input
    let mut out1 = vec![];
    {
        let mut t = xt::Translator::new(&mut out1, to.xt());
        for (i, (fmt, mode, pieces)) in built.iter().enumerate() {
            if *fmt == Fmt::Toml && pieces.is_empty() {
                continue;
            }
            let text = &texts[i];
            match translator_call(&mut t, text, mode, froms[i]) {
                Verdict::Ok => {}
                other => return Err(format!("translating a valid {} input of {} documents failed: {}", fmt.name(), pieces.len(), other.brief())),
            }
        }
    }
    // arrangement 2: one call per document on one translator
    let mut out2 = vec![];
    {
        let mut t = xt::Translator::new(&mut out2, to.xt());
        for (fmt, mode, pieces) in &built {
            for p in pieces {
                match translator_call(&mut t, &p.alone, mode, Some(*fmt)) {
                    Verdict::Ok => {}
                    other => return Err(format!("translating a single valid {} document failed: {}", fmt.name(), other.brief())),
                }
            }
        }
    }
    // arrangement 3: every document alone on a fresh translator
    let mut out3 = vec![];
    let mut n = 0usize;
    let mut expected: Vec<Val> = vec![];
    for (fmt, _, pieces) in &built {
        for p in pieces {
            let o = run_slice(&p.alone, Some(*fmt), to);
            if !o.verdict.is_ok() {
                return Err(format!("translating a single valid {} document alone failed: {}", fmt.name(), o.verdict.brief()));
            }
            out3.extend(o.out);
            n += 1;
            expected.push(expect(&p.model, to));
        }
    }
    if out1 != out3 {
        return Err(format!(
            "output of the multi-document inputs differs from the concatenation of each document translated alone: {} vs {} bytes; first difference at {}: {:?} vs {:?}",
            out1.len(),
            out3.len(),
            first_diff(&out1, &out3),
            around(&out1, first_diff(&out1, &out3)),
            around(&out3, first_diff(&out1, &out3))
        ));
    }
    if out2 != out3 {
        return Err(format!(
            "output of one call per document on a single translator differs from the concatenation of stand-alone translations: {} vs {} bytes; first difference at {}",
            out2.len(),
            out3.len(),
            first_diff(&out2, &out3)
        ));
    }
    // framing, independent of xt
    let docs = read_output(&out1, to).map_err(|e| format!("{} output of {} documents unreadable by the independent reader: {}", to.name(), n, e))?;
    if docs.len() != n {
        return Err(format!("{} output holds {} documents, the inputs hold {}", to.name(), docs.len(), n));
    }
    for (i, (e, g)) in expected.iter().zip(&docs).enumerate() {
        if let Some(k) = compare(e, g, to, "C03", None).map_err(|m| format!("document #{}: {}", i, m))? {
            rec.known(k);
        }
    }
    let n_inputs = built.len();
    let has_scalar = built.iter().any(|(_, _, p)| p.iter().any(|x| !x.model.is_collection()));
    let has_boundary = h.inputs.iter().any(|i| i.docs.iter().any(|d| d.boundary.is_some()));
    let nontrivial = n >= 2 && (n_inputs >= 2 || has_scalar || has_boundary);
    rec.count(if nontrivial { Some(hash_bytes(&[&out1, to.name().as_bytes(), &(n as u64).to_le_bytes()])) } else { None });
    rec.class(&format!("to:{}", to.name()));
    rec.class(match n {
        0 => "docs:0",
        1 => "docs:1",
        2..=9 => "docs:2-9",
        10..=99 => "docs:10-99",
        _ => "docs:100+",
    });
    if n_inputs >= 2 {
        rec.class("multi_input");
    }
    if built.iter().map(|b| b.0.idx()).collect::<std::collections::BTreeSet<_>>().len() >= 2 {
        rec.class("mixed_formats");
    }
    if has_boundary {
        rec.class("boundary_straddling");
    }
    if has_scalar {
        rec.class("scalar_documents");
    }
    if froms.iter().any(|f| f.is_none()) {
        rec.class("input_format_detected");
    }
    if built.iter().zip(&texts).any(|((_, _, p), t)| p.is_empty() && !t.is_empty()) {
        rec.class("empty_input_with_comments_or_blanks");
    }
    rec.sample(|| json!({"to": to.name(), "documents": n, "inputs": built.iter().map(|(f, m, p)| format!("{}:{}docs:{}", f.name(), p.len(), m.class())).collect::<Vec<_>>(), "output": brief_bytes(&out1)}));
    Ok(())
}

fn first_diff(a: &[u8], b: &[u8]) -> usize {
    a.iter().zip(b).position(|(x, y)| x != y).unwrap_or(a.len().min(b.len()))
}

fn around(a: &[u8], i: usize) -> String {
    brief_bytes(&a[i.saturating_sub(20).min(a.len())..(i + 30).min(a.len())])
}

/// Many small documents / large documents in one input (deterministic unit).
fn big_case(shard: u32, k: usize) -> History {
    let n = [500usize, 2000, 5000][k % 3];
    let fmt = [Fmt::Json, Fmt::Yaml, Fmt::Msgpack][(shard as usize + k) % 3];
    let to = [Fmt::Yaml, Fmt::Msgpack, Fmt::Json][(shard as usize / 3 + k) % 3];
    let docs = (0..n)
        .map(|i| DocSpec {
            v: match i % 5 {
                0 => Val::Int(i as i128),
                1 => Val::Str(format!("s{}", i)),
                2 => Val::Seq(vec![Val::Int(i as i128), Val::Null]),
                3 => Val::Map(vec![(Val::s("k"), Val::Float(i as f64 + 0.5))]),
                _ => Val::Bool(i % 2 == 0),
            },
            style: Style::canonical(),
            sep: (i % 7) as u8,
            boundary: None,
        })
        .collect();
    let mut inputs = vec![InputSpec { fmt, docs, mode: if k % 2 == 0 { Mode::Slice } else { Mode::Reader(crate::sio::Sched::Fixed(4096 + k)) }, detect: k % 2 == 1, empty_variant: 0 }];
    // one large document (up to ~300 KiB)
    inputs.push(InputSpec {
        fmt,
        docs: vec![DocSpec { v: Val::Seq((0..(20_000 + 3000 * k)).map(|i| Val::Str(format!("item-{}", i))).collect()), style: Style::canonical(), sep: 1, boundary: None }],
        mode: Mode::Reader(crate::sio::Sched::Sizes(vec![8192, 1, 16384])),
        detect: false,
        empty_variant: 0,
    });
    History { inputs, to }
}

impl Check for C03 {
    fn id(&self) -> &'static str {
        "C03"
    }
    fn level(&self) -> &'static str {
        "exploration"
    }
    fn rule(&self) -> String {
        "Generated histories: 1..4 inputs, each a stream of 0..300 model documents (scalars, empty and larger collections, documents padded to end at 8192*m+delta, delta in [-3,3]) in its own source format (JSON, MessagePack, YAML, occasionally TOML) with drawn separators (JSON none/blank/newlines; YAML '---', '...', comments, directives; inputs without documents as empty, blank or comment-only text), its own supply mode, and its format named or - when detection is defined to pick it - left to detection, fed in order to one Translator for a streaming target. Oracle (1), metamorphic: the output equals the concatenation of every document translated alone, and equals the output when the same documents are fed one call per document. Oracle (2), framing by the independent target reader: exactly N documents (one line each for JSON, each '---'-introduced for YAML, back-to-back for MessagePack) equal in order to the model values. Non-trivial = N >= 2 and (>= 2 inputs, or a scalar document, or a boundary-straddling document); distinct by hash of (output, target, N). Unit 'big' runs streams of 500..5000 small documents and documents of hundreds of KiB.".into()
    }
    fn assumptions(&self) -> Vec<String> {
        vec!["TOML targets are covered by C08".into(), "JSON separators never glue a scalar to the next token (known finding K1)".into()]
    }
    fn units(&self, tier: Tier) -> Vec<Unit> {
        vec![Unit::gen("history", 16, tier.pick(3000, 40_000)), Unit::enumerate("big", tier.pick(6, 16))]
    }
    fn required_classes(&self, _tier: Tier) -> Vec<&'static str> {
        vec!["docs:0", "docs:2-9", "docs:10-99", "docs:100+", "multi_input", "mixed_formats", "boundary_straddling", "scalar_documents", "to:json", "to:yaml", "to:msgpack", "input_format_detected", "empty_input_with_comments_or_blanks"]
    }
    fn run_unit(&self, unit: &Unit, shard: u32, seed: u64, tier: Tier, rec: &mut Recorder) {
        match unit.name {
            "history" => run_prop(rec, seed, unit.cases, history(), history_json, check_history),
            "big" => {
                for k in 0..tier.pick(1, 3) {
                    let h = big_case(shard, k);
                    if let Err(m) = check_history(&h, rec) {
                        rec.fail(m, json!({"unit": "big", "shard": shard, "k": k}));
                        return;
                    }
                }
            }
            other => panic!("unknown unit {}", other),
        }
    }
    fn replay(&self, case: &J) -> Result<(), String> {
        let mut rec = Recorder::default();
        if case["unit"].as_str() == Some("big") {
            return check_history(&big_case(case["shard"].as_u64().unwrap_or(0) as u32, case["k"].as_u64().unwrap_or(0) as usize), &mut rec);
        }
        check_history(&history_from_json(case).ok_or("bad history")?, &mut rec)
    }
    fn confirm_known(&self, k: &Known) -> bool {
        crate::checks::c01::C01.confirm_known(k)
    }
}
