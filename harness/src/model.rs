//! The harness-side model value and its proptest strategies.

use proptest::prelude::*;
use serde_json::{json, Value as J};

#[derive(Clone, Debug)]
pub enum Val {
    Null,
    Bool(bool),
    /// Any integer in [-2^63, 2^64-1].
    Int(i128),
    Float(f64),
    F32(f32),
    Str(String),
    Bytes(Vec<u8>),
    Seq(Vec<Val>),
    /// Ordered entries. Common-model maps have `Str` keys only.
    Map(Vec<(Val, Val)>),
    /// TOML date-time, kept as its text.
    Datetime(String),
    /// MessagePack extension value.
    Ext(i8, Vec<u8>),
}

impl PartialEq for Val {
    fn eq(&self, other: &Val) -> bool {
        use Val::*;
        match (self, other) {
            (Null, Null) => true,
            (Bool(a), Bool(b)) => a == b,
            (Int(a), Int(b)) => a == b,
            (Float(a), Float(b)) => (a.is_nan() && b.is_nan()) || a.to_bits() == b.to_bits(),
            (F32(a), F32(b)) => (a.is_nan() && b.is_nan()) || a.to_bits() == b.to_bits(),
            (Str(a), Str(b)) => a == b,
            (Bytes(a), Bytes(b)) => a == b,
            (Seq(a), Seq(b)) => a == b,
            (Map(a), Map(b)) => a == b,
            (Datetime(a), Datetime(b)) => a == b,
            (Ext(t, a), Ext(u, b)) => t == u && a == b,
            _ => false,
        }
    }
}

impl Val {
    pub fn s(x: &str) -> Val {
        Val::Str(x.to_string())
    }

    pub fn map_str(entries: Vec<(String, Val)>) -> Val {
        Val::Map(entries.into_iter().map(|(k, v)| (Val::Str(k), v)).collect())
    }

    pub fn is_collection(&self) -> bool {
        matches!(self, Val::Seq(_) | Val::Map(_))
    }

    pub fn depth(&self) -> usize {
        match self {
            Val::Seq(v) => 1 + v.iter().map(Val::depth).max().unwrap_or(0),
            Val::Map(m) => 1 + m.iter().map(|(k, v)| k.depth().max(v.depth())).max().unwrap_or(0),
            _ => 0,
        }
    }

    pub fn node_count(&self) -> usize {
        match self {
            Val::Seq(v) => 1 + v.iter().map(Val::node_count).sum::<usize>(),
            Val::Map(m) => 1 + m.iter().map(|(k, v)| k.node_count() + v.node_count()).sum::<usize>(),
            _ => 1,
        }
    }

    /// Applies `f` to every node (pre-order, keys before values).
    pub fn walk<'a>(&'a self, f: &mut dyn FnMut(&'a Val)) {
        f(self);
        match self {
            Val::Seq(v) => v.iter().for_each(|x| x.walk(f)),
            Val::Map(m) => m.iter().for_each(|(k, v)| {
                k.walk(f);
                v.walk(f)
            }),
            _ => {}
        }
    }

    pub fn any(&self, pred: &dyn Fn(&Val) -> bool) -> bool {
        let mut found = false;
        self.walk(&mut |v| {
            if pred(v) {
                found = true
            }
        });
        found
    }

    /// True when the value is inside the data model that all four formats share
    /// (C01): null is allowed only when `allow_null`.
    pub fn is_common(&self, allow_null: bool) -> bool {
        match self {
            Val::Null => allow_null,
            Val::Bool(_) | Val::Int(_) | Val::Str(_) => true,
            Val::Float(f) => f.is_finite(),
            Val::Seq(v) => v.iter().all(|x| x.is_common(allow_null)),
            Val::Map(m) => m.iter().all(|(k, v)| matches!(k, Val::Str(_)) && v.is_common(allow_null)),
            _ => false,
        }
    }

    /// The TOML normal form: inside every table, entries whose value is a table
    /// or a non-empty array consisting only of tables go after the others, each
    /// group keeping its order.
    pub fn toml_normal(&self) -> Val {
        match self {
            Val::Seq(v) => Val::Seq(v.iter().map(Val::toml_normal).collect()),
            Val::Map(m) => {
                let mut first = vec![];
                let mut second = vec![];
                for (k, v) in m {
                    let v = v.toml_normal();
                    let tablish = match &v {
                        Val::Map(_) => true,
                        Val::Seq(items) => !items.is_empty() && items.iter().all(|x| matches!(x, Val::Map(_))),
                        _ => false,
                    };
                    if tablish {
                        second.push((k.clone(), v));
                    } else {
                        first.push((k.clone(), v));
                    }
                }
                first.extend(second);
                Val::Map(first)
            }
            other => other.clone(),
        }
    }

    /// The order the toml crate actually produces (known finding K5): nested
    /// tables are serialized in three passes (plain values and arrays without
    /// tables; arrays containing a table; tables), and tables rendered with
    /// headers then hoist their key/values before their sections.
    pub fn toml_crate_form(&self) -> Val {
        fn contains_table(v: &Val) -> bool {
            matches!(v, Val::Seq(items) if items.iter().any(|x| matches!(x, Val::Map(_))))
        }
        fn all_tables(v: &Val) -> bool {
            matches!(v, Val::Seq(items) if !items.is_empty() && items.iter().all(|x| matches!(x, Val::Map(_))))
        }
        fn go(v: &Val, root: bool, in_value: bool) -> Val {
            match v {
                Val::Seq(items) => {
                    let sections = !in_value && all_tables(v);
                    Val::Seq(items.iter().map(|x| go(x, false, !sections)).collect())
                }
                Val::Map(entries) => {
                    let mut pass: Vec<&(Val, Val)> = vec![];
                    if root {
                        pass.extend(entries.iter());
                    } else {
                        pass.extend(entries.iter().filter(|(_, x)| !matches!(x, Val::Map(_)) && !contains_table(x)));
                        pass.extend(entries.iter().filter(|(_, x)| contains_table(x)));
                        pass.extend(entries.iter().filter(|(_, x)| matches!(x, Val::Map(_))));
                    }
                    let mut out = vec![];
                    if in_value {
                        for (k, x) in pass {
                            out.push((k.clone(), go(x, false, true)));
                        }
                    } else {
                        for (k, x) in pass.iter().filter(|(_, x)| !matches!(x, Val::Map(_)) && !all_tables(x)) {
                            out.push((k.clone(), go(x, false, true)));
                        }
                        for (k, x) in pass.iter().filter(|(_, x)| matches!(x, Val::Map(_)) || all_tables(x)) {
                            out.push((k.clone(), go(x, false, false)));
                        }
                    }
                    Val::Map(out)
                }
                other => other.clone(),
            }
        }
        go(self, true, false)
    }

    /// Input-side predicate of known finding K5: some non-root table holds an
    /// array that contains a table.
    pub fn has_nested_array_with_table(&self) -> bool {
        fn go(v: &Val, root: bool) -> bool {
            match v {
                Val::Seq(items) => items.iter().any(|x| go(x, false)),
                Val::Map(entries) => entries.iter().any(|(_, x)| {
                    (!root && matches!(x, Val::Seq(items) if items.iter().any(|i| matches!(i, Val::Map(_))))) || go(x, false)
                }),
                _ => false,
            }
        }
        go(self, true)
    }

    pub fn to_json(&self) -> J {
        match self {
            Val::Null => J::Null,
            Val::Bool(b) => J::Bool(*b),
            Val::Int(i) => json!({ "i": i.to_string() }),
            Val::Float(f) => json!({ "f": format!("{:016x}", f.to_bits()), "~": format!("{:e}", f) }),
            Val::F32(f) => json!({ "f32": format!("{:08x}", f.to_bits()) }),
            Val::Str(s) => J::String(s.clone()),
            Val::Bytes(b) => json!({ "b": crate::util::hex(b) }),
            Val::Seq(v) => J::Array(v.iter().map(Val::to_json).collect()),
            Val::Map(m) => json!({ "m": m.iter().map(|(k, v)| json!([k.to_json(), v.to_json()])).collect::<Vec<_>>() }),
            Val::Datetime(s) => json!({ "dt": s }),
            Val::Ext(t, b) => json!({ "ext": t, "b": crate::util::hex(b) }),
        }
    }

    pub fn from_json(j: &J) -> Option<Val> {
        Some(match j {
            J::Null => Val::Null,
            J::Bool(b) => Val::Bool(*b),
            J::String(s) => Val::Str(s.clone()),
            J::Array(a) => Val::Seq(a.iter().map(Val::from_json).collect::<Option<Vec<_>>>()?),
            J::Object(o) => {
                if let Some(t) = o.get("ext") {
                    Val::Ext(t.as_i64()? as i8, crate::util::unhex(o.get("b")?.as_str()?)?)
                } else if let Some(i) = o.get("i") {
                    Val::Int(i.as_str()?.parse().ok()?)
                } else if let Some(f) = o.get("f") {
                    Val::Float(f64::from_bits(u64::from_str_radix(f.as_str()?, 16).ok()?))
                } else if let Some(f) = o.get("f32") {
                    Val::F32(f32::from_bits(u32::from_str_radix(f.as_str()?, 16).ok()?))
                } else if let Some(b) = o.get("b") {
                    Val::Bytes(crate::util::unhex(b.as_str()?)?)
                } else if let Some(d) = o.get("dt") {
                    Val::Datetime(d.as_str()?.to_string())
                } else if let Some(m) = o.get("m") {
                    let mut out = vec![];
                    for e in m.as_array()? {
                        let e = e.as_array()?;
                        out.push((Val::from_json(e.first()?)?, Val::from_json(e.get(1)?)?));
                    }
                    Val::Map(out)
                } else {
                    return None;
                }
            }
            J::Number(_) => return None,
        })
    }

    /// Describes the first difference between two values by path.
    pub fn diff(&self, other: &Val) -> String {
        fn go(a: &Val, b: &Val, path: &mut String) -> Option<String> {
            if a == b {
                return None;
            }
            match (a, b) {
                (Val::Seq(x), Val::Seq(y)) => {
                    if x.len() != y.len() {
                        return Some(format!("at {}: sequence length {} vs {}", path, x.len(), y.len()));
                    }
                    for (i, (p, q)) in x.iter().zip(y).enumerate() {
                        let keep = path.len();
                        path.push_str(&format!("[{}]", i));
                        if let Some(d) = go(p, q, path) {
                            return Some(d);
                        }
                        path.truncate(keep);
                    }
                    None
                }
                (Val::Map(x), Val::Map(y)) => {
                    if x.len() != y.len() {
                        return Some(format!("at {}: map size {} vs {}", path, x.len(), y.len()));
                    }
                    for (i, ((k1, v1), (k2, v2))) in x.iter().zip(y).enumerate() {
                        if k1 != k2 {
                            return Some(format!("at {}: key #{} {} vs {}", path, i, k1.brief(), k2.brief()));
                        }
                        let keep = path.len();
                        path.push_str(&format!(".{}", k1.brief()));
                        if let Some(d) = go(v1, v2, path) {
                            return Some(d);
                        }
                        path.truncate(keep);
                    }
                    None
                }
                _ => Some(format!("at {}: {} vs {}", path, a.brief(), b.brief())),
            }
        }
        go(self, other, &mut String::from("$")).unwrap_or_else(|| "equal".into())
    }

    /// Short printable form for samples.
    pub fn brief(&self) -> String {
        let s = self.to_json().to_string();
        if s.len() > 300 {
            let mut cut = 300;
            while !s.is_char_boundary(cut) {
                cut -= 1;
            }
            format!("{}…({} bytes)", &s[..cut], s.len())
        } else {
            s
        }
    }
}

// ---------------------------------------------------------------------------
// Strategies

pub const LOOKALIKES: &[&str] = &[
    "true", "True", "TRUE", "false", "False", "FALSE", "yes", "Yes", "YES", "no", "No", "NO", "on", "On", "ON", "off",
    "Off", "OFF", "y", "Y", "n", "N", "~", "null", "Null", "NULL", "nil", "none", "None", "", " ", "1e3", "1E3", "1e+3",
    "1.0", "1.", ".5", "-.5", "+.5", "0x1F", "0X1F", "0o17", "0O17", "017", "0b101", "1_000", "1,000", "+1", "-1", "-0",
    "+0", "0", "00", "007", "0.0", "-0.0", "1e999", "-1e999", "1e-999", ".inf", "-.inf", "+.inf", ".Inf", ".INF",
    "-.INF", ".nan", ".NaN", ".NAN", "inf", "-inf", "+inf", "nan", "NaN", "Infinity", "-Infinity", "2001-01-01",
    "2001-01-01T00:00:00Z", "2001-01-01 00:00:00", "1979-05-27T07:32:00-08:00", "12:30", "12:30:45", "1:2", "190:20:30",
    "=", "<<", "-", "--", "---", "--- ", "---\n", "...", "... ", "- a", "- ", "-\t", "? a", "?", ": ", ":", "a: b",
    "a:b", "a :b", "k: v\n", "#", "# c", "a #c", "a# c", "!", "!!str x", "!tag", "&a", "&a b", "*a", "*", "|", "|-",
    ">", ">-", "%", "%YAML 1.2", "@", "`", "'", "''", "\"", "\"\"", "'a'", "\"a\"", "[", "]", "[]", "[a]", "{", "}",
    "{}", "{a: b}", ",", "a,b", "a, b", "\\", "\\n", "\\u0041", "\\x41", "a\\", "18446744073709551615",
    "18446744073709551616", "-9223372036854775808", "-9223372036854775809", "9223372036854775807", "9223372036854775808",
    "340282366920938463463374607431768211455", "340282366920938463463374607431768211456",
    "99999999999999999999999999999999999999999", "0.1", "1e1000000", "0x", "0o", "0xg", "1__0", "_1", "1_", "1e", "e1",
    "1.e1", "1.5e", "++1", "--1", "+-1", "0x-1", "-0x1", "+0x1", "0x_1", "1 2", "true ", " true", "null ", " null",
    "[section]", "[[aot]]", "key = 1", "a.b", "\"a\".b", "'''", "\"\"\"", "'''x'''", "\"\"\"x\"\"\"",
];

/// Interesting single characters (as strings), by class.
pub fn special_chars() -> Vec<char> {
    let mut v: Vec<char> = vec![];
    // C0, DEL, C1
    for c in 0u32..=0x20 {
        v.push(char::from_u32(c).unwrap());
    }
    for c in 0x7f..=0xa0u32 {
        v.push(char::from_u32(c).unwrap());
    }
    for c in [
        0xad, 0x2028, 0x2029, 0xfeff, 0xfffe, 0xffff, 0xfffd, 0xfffc, 0xd7ff, 0xe000, 0xfdd0, 0xfdef, 0x1fffe, 0x1ffff,
        0x10000, 0x10ffff, 0x10fffe, 0xffffe, 0xfffff, 0x100000, 0x7ff, 0x800, 0x700, 0x710, 0x7b1, 0x200b, 0x200d,
        0x200e, 0x202e, 0x2060, 0x3000, 0x301, 0x20dd, 0x1f600, 0x1f468, 0x1f3fb, 0xe0001, 0xe007f, 0xf0000,
    ] {
        v.push(char::from_u32(c).unwrap());
    }
    // every ASCII punctuation indicator
    for c in "!\"#$%&'()*+,-./:;<=>?@[\\]^_`{|}~".chars() {
        v.push(c);
    }
    v
}

fn piece() -> BoxedStrategy<String> {
    let specials = special_chars();
    prop_oneof![
        6 => "[a-z]{1,8}",
        2 => "[A-Za-z0-9_-]{1,12}",
        2 => "[ \t]{1,3}",
        2 => prop_oneof![Just("\n"), Just("\r"), Just("\r\n"), Just("\n\n"), Just(" \n"), Just("\n ")].prop_map(String::from),
        5 => proptest::sample::select(specials).prop_map(|c| c.to_string()),
        4 => proptest::sample::select(LOOKALIKES).prop_map(String::from),
        2 => any::<char>().prop_map(|c| c.to_string()),
        1 => "[0-9]{1,20}",
        1 => "\\PC{1,6}",
        1 => Just("👨‍👩‍👧‍👦".to_string()),
        1 => Just("e\u{301}".to_string()),
    ]
    .boxed()
}

/// Strings of Unicode scalar values with emphasis on troublesome content.
pub fn string_strategy() -> BoxedStrategy<String> {
    prop_oneof![
        3 => "[a-z]{0,10}",
        2 => proptest::sample::select(LOOKALIKES).prop_map(String::from),
        6 => proptest::collection::vec(piece(), 0..5).prop_map(|v| v.concat()),
        1 => proptest::collection::vec(piece(), 5..40).prop_map(|v| v.concat()),
    ]
    .boxed()
}

pub fn int_boundaries() -> Vec<i128> {
    let mut v = vec![i64::MIN as i128, u64::MAX as i128, 0, 1, -1];
    for k in [7u32, 8, 15, 16, 31, 32, 53, 63, 64] {
        let p: i128 = 1i128 << k;
        for d in -2..=2i128 {
            for s in [1i128, -1] {
                let x = s * p + d;
                if x >= i64::MIN as i128 && x <= u64::MAX as i128 {
                    v.push(x);
                }
            }
        }
    }
    // fixint edges of MessagePack
    v.extend([-32, -33, 127, 128, -128, -129, 255, 256]);
    v.sort();
    v.dedup();
    v
}

pub fn int_strategy() -> BoxedStrategy<i128> {
    prop_oneof![
        4 => proptest::sample::select(int_boundaries()),
        2 => -1000i128..1000,
        1 => any::<i8>().prop_map(|x| x as i128),
        1 => any::<i16>().prop_map(|x| x as i128),
        1 => any::<i32>().prop_map(|x| x as i128),
        2 => any::<i64>().prop_map(|x| x as i128),
        2 => any::<u64>().prop_map(|x| x as i128),
    ]
    .boxed()
}

pub fn float_specials() -> Vec<f64> {
    let mut v = vec![
        0.0,
        -0.0,
        f64::MIN_POSITIVE,
        -f64::MIN_POSITIVE,
        f64::from_bits(1),
        f64::from_bits(0x000f_ffff_ffff_ffff),
        f64::MAX,
        f64::MIN,
        f64::EPSILON,
        0.1,
        0.2,
        0.3,
        1.0 / 3.0,
        0.30000000000000004,
        9007199254740993.0,
        9007199254740992.0,
        9007199254740991.0,
        1.0,
        -1.0,
        1.5,
        100.0,
        1e15,
        1e16,
        1e17,
        1e21,
        1e22,
        1e23,
        1e-5,
        1e-6,
        1e-7,
        123456789012345680.0,
        5e-324,
        2.2250738585072011e-308,
        1.7976931348623157e308,
        4.35,
        2.675,
        1e300,
        1e-300,
        18446744073709551616.0,
        9223372036854775808.0,
        -9223372036854775808.0,
    ];
    for k in -40..=40 {
        v.push(10f64.powi(k * 7));
        v.push(2f64.powi(k * 25));
    }
    v
}

/// Finite binary64 values: raw bit patterns dominate.
pub fn float_strategy() -> BoxedStrategy<f64> {
    prop_oneof![
        6 => any::<u64>().prop_map(|bits| {
            let f = f64::from_bits(bits);
            if f.is_finite() { f } else { f64::from_bits(bits & !(1u64 << 62)) }
        }),
        3 => proptest::sample::select(float_specials()),
        2 => (any::<i32>(), 0u32..6).prop_map(|(m, e)| m as f64 / 10f64.powi(e as i32)),
        1 => any::<i64>().prop_map(|x| x as f64),
        1 => (1u64..(1u64 << 53), -30i32..30).prop_map(|(m, e)| m as f64 * 2f64.powi(e)),
    ]
    .boxed()
}

#[derive(Clone, Copy, Debug)]
pub struct Shape {
    pub allow_null: bool,
    /// non-finite floats, f32
    pub ext_float: bool,
    /// bytes
    pub ext_bytes: bool,
    /// non-string keys
    pub ext_keys: bool,
    pub depth: u32,
    pub size: u32,
}

impl Shape {
    pub const COMMON: Shape =
        Shape { allow_null: false, ext_float: false, ext_bytes: false, ext_keys: false, depth: 6, size: 48 };
    pub const COMMON_NULL: Shape = Shape { allow_null: true, ..Shape::COMMON };
}

pub fn scalar_strategy(shape: Shape) -> BoxedStrategy<Val> {
    let mut opts: Vec<(u32, BoxedStrategy<Val>)> = vec![
        (2, any::<bool>().prop_map(Val::Bool).boxed()),
        (6, int_strategy().prop_map(Val::Int).boxed()),
        (6, float_strategy().prop_map(Val::Float).boxed()),
        (8, string_strategy().prop_map(Val::Str).boxed()),
    ];
    if shape.allow_null {
        opts.push((2, Just(Val::Null).boxed()));
    }
    if shape.ext_float {
        opts.push((
            1,
            prop_oneof![Just(f64::NAN), Just(f64::INFINITY), Just(f64::NEG_INFINITY)].prop_map(Val::Float).boxed(),
        ));
        opts.push((1, any::<u32>().prop_map(|b| Val::F32(f32::from_bits(b))).boxed()));
    }
    if shape.ext_bytes {
        opts.push((1, proptest::collection::vec(any::<u8>(), 0..12).prop_map(Val::Bytes).boxed()));
    }
    proptest::strategy::Union::new_weighted(opts).boxed()
}

fn dedup_entries(entries: Vec<(Val, Val)>) -> Vec<(Val, Val)> {
    let mut out: Vec<(Val, Val)> = vec![];
    for (k, v) in entries {
        if !out.iter().any(|(k2, _)| *k2 == k) {
            out.push((k, v));
        }
    }
    out
}

pub fn key_strategy(shape: Shape) -> BoxedStrategy<Val> {
    if shape.ext_keys {
        prop_oneof![
            6 => string_strategy().prop_map(Val::Str),
            1 => int_strategy().prop_map(Val::Int),
            1 => any::<bool>().prop_map(Val::Bool),
            1 => Just(Val::Null),
            1 => float_strategy().prop_map(Val::Float),
        ]
        .boxed()
    } else {
        string_strategy().prop_map(Val::Str).boxed()
    }
}

/// Documents of the model described by `shape`.
pub fn val_strategy(shape: Shape) -> BoxedStrategy<Val> {
    let leaf = scalar_strategy(shape);
    let keys = key_strategy(shape);
    leaf.prop_recursive(shape.depth, shape.size, 6, move |inner| {
        prop_oneof![
            3 => proptest::collection::vec(inner.clone(), 0..6).prop_map(Val::Seq),
            4 => proptest::collection::vec((keys.clone(), inner.clone()), 0..6)
                .prop_map(|e| Val::Map(dedup_entries(e))),
            1 => proptest::collection::vec((keys.clone(), inner.clone()), 2..12)
                .prop_map(|e| Val::Map(dedup_entries(e))),
        ]
    })
    .boxed()
}

/// Wraps `inner` in a chain of `depth` single-element collections whose kinds
/// are drawn from `kinds` (false = seq, true = map with key "k").
pub fn chain(inner: Val, kinds: &[bool]) -> Val {
    let mut v = inner;
    for &k in kinds.iter().rev() {
        v = if k { Val::Map(vec![(Val::s("k"), v)]) } else { Val::Seq(vec![v]) };
    }
    v
}

/// Documents that are occasionally deep chains (up to depth 64) or wide.
pub fn doc_strategy(shape: Shape) -> BoxedStrategy<Val> {
    let base = val_strategy(shape);
    let base2 = base.clone();
    let base3 = base.clone();
    let scal = scalar_strategy(shape);
    prop_oneof![
        12 => base,
        1 => (base2, proptest::collection::vec(any::<bool>(), 1..60)).prop_map(|(v, kinds)| {
            let room = 64usize.saturating_sub(v.depth());
            let n = kinds.len().min(room);
            chain(v, &kinds[..n])
        }),
        1 => proptest::collection::vec(scal, 50..300).prop_map(Val::Seq),
        1 => proptest::collection::vec((string_strategy(), base3), 20..80)
            .prop_map(|e| Val::Map(dedup_entries(e.into_iter().map(|(k, v)| (Val::Str(k), v)).collect()))),
    ]
    .boxed()
}

/// Forces a document to have a map root (for TOML targets/sources).
pub fn table_rooted(v: Val) -> Val {
    match v {
        Val::Map(_) => v,
        other => Val::Map(vec![(Val::s("root"), other)]),
    }
}

/// Forces a document to have a collection root.
pub fn collection_rooted(v: Val) -> Val {
    if v.is_collection() {
        v
    } else {
        Val::Seq(vec![v])
    }
}

/// The C01 non-triviality rule.
pub fn nontrivial_doc(v: &Val) -> bool {
    if v.depth() >= 3 {
        return true;
    }
    v.any(&|n| match n {
        Val::Str(s) => {
            s.chars().any(|c| !c.is_ascii() || c.is_control() || "\"'\\:#-[]{},&*!|>%@`".contains(c))
                || LOOKALIKES.contains(&s.as_str())
                || s.starts_with(' ')
                || s.ends_with(' ')
        }
        Val::Int(i) => i.unsigned_abs() >= (1u128 << 31),
        Val::Float(f) => format!("{:e}", f).len() >= 18,
        Val::Map(m) => m.len() >= 2,
        Val::Null | Val::Bytes(_) | Val::F32(_) | Val::Ext(..) | Val::Datetime(_) => true,
        _ => false,
    })
}
