//! Scheduled readers, fault injectors and logging writers.

use std::io::{self, Read, Write};

/// How the bytes are cut into successive `read` results.
#[derive(Clone, Debug, PartialEq)]
pub enum Sched {
    /// As much as the caller asks for.
    Full,
    /// At most `n` bytes per read.
    Fixed(usize),
    /// Sizes taken cyclically from the list (each >= 1).
    Sizes(Vec<usize>),
    /// Explicit cut offsets (absolute, increasing): a read never crosses a cut.
    Cuts(Vec<usize>),
}

impl Sched {
    pub fn to_json(&self) -> serde_json::Value {
        use serde_json::json;
        match self {
            Sched::Full => json!("full"),
            Sched::Fixed(n) => json!({ "fixed": n }),
            Sched::Sizes(v) => json!({ "sizes": v }),
            Sched::Cuts(v) => json!({ "cuts": v }),
        }
    }
    pub fn from_json(j: &serde_json::Value) -> Option<Sched> {
        if j.as_str() == Some("full") {
            return Some(Sched::Full);
        }
        if let Some(n) = j.get("fixed") {
            return Some(Sched::Fixed(n.as_u64()? as usize));
        }
        let list = |v: &serde_json::Value| -> Option<Vec<usize>> { v.as_array()?.iter().map(|x| x.as_u64().map(|x| x as usize)).collect() };
        if let Some(v) = j.get("sizes") {
            return Some(Sched::Sizes(list(v)?));
        }
        if let Some(v) = j.get("cuts") {
            return Some(Sched::Cuts(list(v)?));
        }
        None
    }
    pub fn class(&self) -> &'static str {
        match self {
            Sched::Full => "full",
            Sched::Fixed(1) => "bytewise",
            Sched::Fixed(_) => "fixed",
            Sched::Sizes(_) => "sizes",
            Sched::Cuts(_) => "cuts",
        }
    }
}

pub fn sched_strategy() -> proptest::strategy::BoxedStrategy<Sched> {
    use proptest::prelude::*;
    prop_oneof![
        2 => Just(Sched::Full),
        2 => Just(Sched::Fixed(1)),
        2 => (2usize..40).prop_map(Sched::Fixed),
        1 => prop_oneof![Just(4095usize), Just(4096), Just(4097), Just(8191), Just(8192), Just(8193), Just(1000), Just(16383), Just(16384), Just(16385), Just(65536)].prop_map(Sched::Fixed),
        3 => proptest::collection::vec(1usize..24, 1..12).prop_map(Sched::Sizes),
        1 => proptest::collection::vec(1usize..9000, 1..6).prop_map(Sched::Sizes),
        2 => proptest::collection::vec(0usize..4096, 0..8).prop_map(|mut v| { v.sort(); v.dedup(); Sched::Cuts(v) }),
    ]
    .boxed()
}

/// A reader over a byte slice following a schedule; optionally fails once `fail_at`
/// bytes were delivered (and keeps failing). Logs (offset, requested, returned).
pub struct SchedReader<'a> {
    pub data: &'a [u8],
    pub pos: usize,
    pub sched: Sched,
    step: usize,
    pub fail_at: Option<usize>,
    /// which error the failing reads return: 0 a custom error carrying
    /// INJECTED-R-k, 1 a raw OS error (EIO), 2 a bare ErrorKind (no payload), 3 / 4 custom
    /// errors of kind UnexpectedEof / InvalidData
    pub fail_kind: u8,
    /// when set: once this many bytes were delivered, ONE read fails with
    /// ErrorKind::Interrupted; the next read continues normally
    pub interrupt_at: Option<usize>,
    pub interrupted: bool,
    pub reads: usize,
    pub eof_reads: usize,
    /// offsets at which a read ended before the end of data (read boundaries)
    pub boundaries: Vec<usize>,
    pub log_boundaries: bool,
}

impl<'a> SchedReader<'a> {
    pub fn new(data: &'a [u8], sched: Sched) -> Self {
        SchedReader { data, pos: 0, sched, step: 0, fail_at: None, fail_kind: 0, interrupt_at: None, interrupted: false, reads: 0, eof_reads: 0, boundaries: vec![], log_boundaries: false }
    }
    pub fn failing(data: &'a [u8], sched: Sched, fail_at: usize) -> Self {
        let mut r = Self::new(data, sched);
        r.fail_at = Some(fail_at);
        r
    }
}

pub fn injected_read_error(k: usize) -> io::Error {
    io::Error::new(io::ErrorKind::Other, format!("INJECTED-R-{}", k))
}

/// The error a failing reader of the given kind returns (see `fail_kind`).
pub fn injected_read_error_kind(k: usize, kind: u8) -> io::Error {
    match kind {
        1 => io::Error::from_raw_os_error(libc::EIO),
        2 => io::ErrorKind::TimedOut.into(),
        // kinds that parsers produce themselves for a short input, with the reader's own text
        3 => io::Error::new(io::ErrorKind::UnexpectedEof, format!("INJECTED-R-{} (connection cut)", k)),
        4 => io::Error::new(io::ErrorKind::InvalidData, format!("INJECTED-R-{} (bad checksum)", k)),
        _ => injected_read_error(k),
    }
}

impl<'a> Read for SchedReader<'a> {
    fn read(&mut self, buf: &mut [u8]) -> io::Result<usize> {
        self.reads += 1;
        if buf.is_empty() {
            return Ok(0);
        }
        if let Some(k) = self.interrupt_at {
            if self.pos >= k && !self.interrupted {
                self.interrupted = true;
                return Err(io::Error::new(io::ErrorKind::Interrupted, "INJECTED-INTERRUPT"));
            }
        }
        let limit = self.fail_at.unwrap_or(usize::MAX).min(self.data.len());
        if let Some(k) = self.fail_at {
            if self.pos >= k {
                return Err(injected_read_error_kind(k, self.fail_kind));
            }
        }
        let remaining = limit - self.pos;
        if remaining == 0 {
            self.eof_reads += 1;
            return Ok(0);
        }
        let want = match &self.sched {
            Sched::Full => usize::MAX,
            Sched::Fixed(n) => (*n).max(1),
            Sched::Sizes(v) => {
                let n = v[self.step % v.len()].max(1);
                self.step += 1;
                n
            }
            Sched::Cuts(cuts) => match cuts.iter().find(|c| **c > self.pos) {
                Some(c) => c - self.pos,
                None => usize::MAX,
            },
        };
        let mut n = want.min(buf.len()).min(remaining);
        if let Some(k) = self.interrupt_at {
            if !self.interrupted && self.pos < k {
                n = n.min(k - self.pos);
            }
        }
        buf[..n].copy_from_slice(&self.data[self.pos..self.pos + n]);
        self.pos += n;
        if self.log_boundaries && self.pos < self.data.len() {
            self.boundaries.push(self.pos);
        }
        Ok(n)
    }
}

/// A reader that claims to have read `excess` more bytes than it did (C17).
pub struct OverReportReader<'a> {
    pub inner: SchedReader<'a>,
    pub excess: usize,
    /// over-report on the k-th read (0-based); None = every read
    pub on_read: Option<usize>,
    pub count: usize,
    pub lied: bool,
}

impl<'a> Read for OverReportReader<'a> {
    fn read(&mut self, buf: &mut [u8]) -> io::Result<usize> {
        let n = self.inner.read(buf)?;
        let k = self.count;
        self.count += 1;
        // A reader that over-reports at its end of file never ends: lie a
        // bounded number of times, then behave.
        if k < 64 && self.on_read.map_or(true, |r| r == k) {
            self.lied = true;
            Ok(n.saturating_add(self.excess))
        } else {
            Ok(n)
        }
    }
}

/// Keeps the letter of the Read contract (never claims more than the buffer
/// holds) but on one call does not write the bytes it claims: the caller's buffer
/// keeps whatever it held.
pub struct UnwrittenReader<'a> {
    pub inner: SchedReader<'a>,
    pub on_read: usize,
    pub count: usize,
}

impl<'a> Read for UnwrittenReader<'a> {
    fn read(&mut self, buf: &mut [u8]) -> io::Result<usize> {
        let k = self.count;
        self.count += 1;
        if k == self.on_read {
            let mut scratch = vec![0u8; buf.len()];
            self.inner.read(&mut scratch)
        } else {
            self.inner.read(buf)
        }
    }
}

pub fn injected_write_error(k: usize) -> io::Error {
    io::Error::new(io::ErrorKind::Other, format!("INJECTED-W-{}", k))
}

/// Accepts exactly `limit` bytes in total, then fails (and keeps failing).
/// Also accepts at most `max_chunk` bytes per call when set.
pub struct FaultWriter {
    pub accepted: Vec<u8>,
    pub limit: Option<usize>,
    pub chunks: Option<Vec<usize>>,
    step: usize,
    pub writes: usize,
    pub flushes: usize,
    pub failed: bool,
    /// the buffer passed to the write call that failed
    pub failing_buf: Option<Vec<u8>>,
    /// once the limit is reached, answer Ok(0) ("no room", like a full `&mut [u8]`)
    /// instead of an error
    pub full_is_zero: bool,
}

impl FaultWriter {
    pub fn new(limit: Option<usize>, chunks: Option<Vec<usize>>) -> Self {
        FaultWriter { accepted: vec![], limit, chunks, step: 0, writes: 0, flushes: 0, failed: false, failing_buf: None, full_is_zero: false }
    }
    pub fn plain() -> Self {
        Self::new(None, None)
    }
    /// Accepts exactly `limit` bytes, then answers Ok(0) to every write.
    pub fn full_after(limit: usize) -> Self {
        let mut w = Self::new(Some(limit), None);
        w.full_is_zero = true;
        w
    }
}

impl Write for FaultWriter {
    fn write(&mut self, buf: &[u8]) -> io::Result<usize> {
        self.writes += 1;
        if buf.is_empty() {
            return Ok(0);
        }
        let mut n = buf.len();
        if let Some(c) = &self.chunks {
            n = n.min(c[self.step % c.len()].max(1));
            self.step += 1;
        }
        if let Some(limit) = self.limit {
            let room = limit - self.accepted.len();
            if room == 0 {
                self.failed = true;
                if self.failing_buf.is_none() {
                    self.failing_buf = Some(buf.to_vec());
                }
                if self.full_is_zero {
                    return Ok(0);
                }
                return Err(injected_write_error(limit));
            }
            n = n.min(room);
        }
        self.accepted.extend_from_slice(&buf[..n]);
        Ok(n)
    }
    fn flush(&mut self) -> io::Result<()> {
        self.flushes += 1;
        Ok(())
    }
}
