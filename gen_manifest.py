#!/usr/bin/env python3
"""Regenerates MANIFEST.json from the table below (kept in one place so the manifest stays valid)."""
import json, subprocess

HOOK_COMMITS = ["e6a50de"]

CHECKS = {
 "C01": dict(level="exploration", technique="property-based testing (proptest): generated documents and spellings, independent-reader oracle per target format, plus enumerated scalar/int/float/depth sweeps",
   text="Generated-input search with an explicit reference oracle: every generated document is written by harness spelling writers, translated by xt for all 16 format pairs under drawn supply modes, decoded by independent readers and compared type-exactly with the model. Finite sub-domains (special scalars, int boundaries, depth-64 chains) are enumerated completely. Exploration is the right level: the property quantifies over an unbounded value/spelling space.",
   note="Trusts the harness readers (own JSON/MessagePack decoders, libyaml events + own core-schema resolver, toml_edit walk) and writers (each writer is validated against the reader on every case). Known findings K3/K5 are excluded by input-side class predicates.", ref="4 C01"),
 "C02": dict(level="exploration", technique="differential property-based testing (proptest) of slice vs scheduled-reader supply over generated/mutated/enumerated byte strings, plus file/stdin/FIFO differential through the real binary",
   text="Generated-input search with a differential oracle that is exactly the statement: same verdict, byte-identical output on success, prefix-comparable partial output on failure, for the same bytes under two supply modes. Token sequences up to a length bound are enumerated exhaustively; everything else is sampled.",
   note="Known findings K1 and K2 are excluded only when both their input-side predicate and their licensed disagreement shape hold. Error texts are not compared.", ref="4 C02"),
 "C04": dict(level="exploration", technique="property-based testing and bounded enumeration in crash-isolated workers: generated/mutated/adversarial byte strings and planted refusals, oracle = returns Ok or Err (no panic, signal or hang); real binaries sampled",
   text="Totality is checked by executing: every case runs slice and reader translation under catch_unwind inside worker processes whose death (signal) is attributed to a concrete case by traced re-execution; a heartbeat watchdog turns non-termination into a reported case. The debug and release binaries (panic=abort) are run on a sample and on all adversarial shapes.",
   note="Sees only executed inputs. libyaml's scanner is quadratic in flow-nesting depth, so flow nesting beyond 20,000 levels is not given to the YAML parser (it terminates, in hours).", ref="4 C04"),
}

PENDING = {}

def main():
    props = [json.loads(l)["id"] for l in open("/verif/properties.jsonl")]
    checks = []
    for pid in props:
        if pid not in CHECKS:
            continue
        c = CHECKS[pid]
        checks.append({
            "property_id": pid,
            "quick_cmd": f"./check {pid} quick",
            "thorough_cmd": f"./check {pid} thorough",
            "evidence_file": f"/verif/evidence/{pid}.json",
            "replay_cmd_template": "./check replay {path}",
            "engine": c.get("engine", "xtv"),
            "level_claimed": {"category": c["level"], "text": c["text"], "design_ref": c["ref"]},
            "level_note": c["note"],
            "technique": c["technique"],
        })
    na = [{"property_id": p, "reason": PENDING.get(p, "check not built yet in this revision of the machinery (planned; see DESIGN.md section 4)")} for p in props if p not in CHECKS]
    m = {
        "version": 1,
        "setup_cmd": "./check build",
        "hooks": {
            "guard": "cargo feature 'verif' of the xt crate",
            "enable": "the harness crate depends on xt with features = [\"verif\"] (path dependency on /repo); the xt binaries used by CLI checks are built with the feature off",
            "baseline_off_cmd": "cd /repo && cargo test --workspace --no-fail-fast --offline",
            "source_commits": HOOK_COMMITS,
            "add_only": True,
        },
        "engines": [
            {"name": "xtv", "path": "/verif/harness", "serves_properties": sorted(CHECKS), "kind_free_text": "Rust harness (proptest TestRunner + bounded enumerators), crash-isolated worker processes, independent readers/writers, replay files"},
        ],
        "checks": checks,
        "not_applicable": na,
        "notes": "Entry point ./check <ID> <quick|thorough>; rebuilds the harness (and, for CLI properties, the xt binaries) from /repo's working tree on every invocation. Known findings: /verif/known_findings.jsonl.",
    }
    json.dump(m, open("/verif/MANIFEST.json", "w"), indent=1)
    print("checks:", [c["property_id"] for c in checks], "n/a:", len(na))

main()
