#!/usr/bin/env python3
"""Regenerates MANIFEST.json from the table below (kept in one place so the manifest stays valid)."""
import json, subprocess

HOOK_COMMITS = ["e6a50de", "e2955a6"]

CHECKS = {
 "C01": dict(level="exploration", technique="property-based testing (proptest): generated documents and spellings, independent-reader oracle per target format, plus enumerated scalar/int/float/depth sweeps",
   text="Generated-input search with an explicit reference oracle: every generated document is written by harness spelling writers, translated by xt for all 16 format pairs under drawn supply modes, decoded by independent readers and compared type-exactly with the model. Finite sub-domains (special scalars, int boundaries, depth-64 chains, collection/string lengths on every MessagePack header boundary 15..65537 and around 4096) are enumerated completely. Exploration is the right level: the property quantifies over an unbounded value/spelling space.",
   note="Trusts the harness readers (own JSON/MessagePack decoders, libyaml events + own core-schema resolver, toml_edit walk) and writers (each writer is validated against the reader on every case). Known findings K3/K5 are excluded by input-side class predicates.", ref="4 C01"),
 "C02": dict(level="exploration", technique="differential property-based testing (proptest) of slice vs scheduled-reader supply over generated/mutated/enumerated byte strings, plus file/stdin/FIFO differential through the real binary",
   text="Generated-input search with a differential oracle that is exactly the statement: same verdict, byte-identical output on success, prefix-comparable partial output on failure, for the same bytes under two supply modes. Token sequences up to a length bound are enumerated exhaustively; everything else is sampled.",
   note="Known findings K1 and K2 are excluded only when both their input-side predicate and their licensed disagreement shape hold. Error texts are not compared.", ref="4 C02"),
 "C04": dict(level="exploration", technique="property-based testing and bounded enumeration in crash-isolated workers: generated/mutated/adversarial byte strings and planted refusals, oracle = returns Ok or Err (no panic, signal or hang); real binaries sampled",
   text="Totality is checked by executing: every case runs slice and reader translation under catch_unwind inside worker processes whose death (signal) is attributed to a concrete case by traced re-execution; a heartbeat watchdog turns non-termination into a reported case. The debug and release binaries (panic=abort) are run on a sample and on all adversarial shapes; failing runs are repeated with standard error on /dev/full. The corpus includes YAML re-encoded as UTF-16/32, whole, damaged and longer than every internal buffer.",
   note="Sees only executed inputs. libyaml's scanner is quadratic in flow-nesting depth, so flow nesting beyond 20,000 levels is not given to the YAML parser (it terminates, in hours).", ref="4 C04"),
 "C03": dict(level="exploration", technique="stateful property-based testing (proptest): generated multi-input histories on one Translator; metamorphic oracle (concatenation of stand-alone translations, independence from call distribution) plus independent framing reader",
   text="Generated histories of inputs and documents with drawn separators, formats, supply modes and buffer-boundary padding; the output must equal the concatenation of per-document translations under three different distributions over calls, and the independent reader of the target must recover exactly N documents equal to the model values. JSON documents touch without a separator wherever one neighbour delimits itself.",
   note="TOML targets belong to C08. Trusts the harness stream writers (validated against the harness readers on every case) and readers.", ref="4 C03"),
 "C06": dict(level="exploration", technique="property-based testing (proptest): fixed-point oracle xt(B->B)(y)==y and round-trip oracle xt(B->A)(xt(A->B)(x))==xt(A->A)(x) over generated documents incl. extension values",
   text="Self-referential oracles that need no reference implementation: byte-for-byte idempotence of every successful output from both supply modes, and byte-level (value-level for TOML) round trip for common-model documents, over all 16 ordered pairs; unit 'wide' enumerates lengths on the header boundaries up to 5000.",
   note="A refused first hop is not a violation. Known findings K5 (TOML ordering) and K7 (f32 text output) are excluded by input-side predicates plus licensed shapes.", ref="4 C06"),
 "C07": dict(level="exploration", technique="exhaustive enumeration of all Unicode scalar values and ill-formed unit classes through the re-encoder hook against std's decoder as reference, plus differential property-based testing of UTF-16/32 vs UTF-8 YAML end to end",
   text="The character domain is finite and is enumerated completely (every scalar value, every encoding, BOM and buffer-size combination listed in the evidence; every ill-formed one- and two-unit class at three positions); the end-to-end claim is sampled with generated YAML streams under all supply modes, and enumerated for every text of 0..3 characters over a 12-character alphabet (unit 'tiny') and for texts longer than every internal buffer (unit 'long').",
   note="Reference = Rust's standard library UTF-8/UTF-16 conversions. Buffer sizes are a finite listed set, not all sizes.", ref="4 C07"),
 "C08": dict(level="exploration", technique="model-based stateful property testing (proptest): histories of translate calls on one TOML translator against a reference state machine (attempted/accepted), with refusals planted at enumerated node paths",
   text="Reference model of the TOML output contract run in lock-step with the real translator over a logging writer: per call verdict, bytes written by that call, validity and value of the single accepted document (toml_edit), and the 'nothing or exactly one document' invariant after every step. Unit 'cli' runs the same histories as the input files of one `xt -t toml` invocation of the real binaries.",
   note="For binary/ext/f32/non-string non-null keys the statement does not fix accept-or-refuse; the check requires only nothing-and-Err or one valid document. K5 and K8 are known findings.", ref="4 C08"),
 "C09": dict(level="exploration", technique="differential property-based testing of detected vs explicit runs using the detection hook, plus bounded-exhaustive and random model-based testing of the rewindable input handle",
   text="Part 1 compares, for generated and enumerated byte strings and both supply modes, the complete outcome (verdict, bytes, error text) of a detected run with the run that names the hook-reported format, and requires 'unable to detect input format' otherwise. Part 2 runs every program of handle operations up to a bound (all small data sizes, all chunkings, both endings) against the reference model 'the byte string itself'. Unit 'sizes' feeds TOML documents just below the 2 MiB reader cut-off. Unit 'sequence' translates pairs of generated inputs through ONE Translator without naming a format: the second input must come out exactly as it does alone (detection has no memory).",
   note="Observes detection through the verif hook. Known findings K4 and K6 license two precisely shaped differences between failing detected and explicit reader runs.", ref="4 C09"),
 "C10": dict(level="exploration", technique="property-based testing (proptest): xt output fed back without a format vs with the format named; TOML precondition decided by independent harness predicates",
   text="Generated collection-rooted documents are translated to each output format; the output must be detected as that format (hook) and translate identically with and without naming it, from a slice and from a scheduled reader. The TOML precondition is evaluated without xt and the fraction satisfying it is reported.",
   note="Shares K4/K6 with C09 for failing runs.", ref="4 C10"),
 "C05": dict(level="exploration", technique="schedule-owning generated streams: a lazily generating reader and a counting writer observe the read/write interleaving (lag invariant over the history); counting global allocator observes peak heap",
   text="The harness owns the packetisation of a lazily generated stream and checks, at every read call of every generated stream, the statement's lag bound against per-document translation sizes; peak live heap is measured by a counting allocator against a bound proportional to one document, plus a 10x-length growth comparison; YAML streams come in four spellings (block maps, block sequences with '...', flow sequences first, %YAML/%TAG directives on every document).",
   note="Memory bounds are loose by design (slurping-class regressions). Document sizes up to tens of KiB in quick, hundreds of KiB in thorough.", ref="4 C05"),
 "C11": dict(level="fault_enumeration", technique="planted-defect enumeration over generated documents: syntax damage at drawn byte positions vs the parser crate's own message (mirrored drive), unrepresentable leaf at every node path vs standalone serializer reasons, writer fault at every output byte",
   text="Each generated document gets exactly one planted defect; the oracle for the error text is derived at run time from the very parser/serializer crates xt drives (same locked versions), never hard-coded. Node paths and writer fault offsets are enumerated exhaustively per document; syntax damage positions are drawn. For YAML through the reader route the harness drives libyaml itself over the text and requires its description(s) and positions in xt's message; what libyaml rejects must not translate successfully.",
   note="Positions in messages are not asserted to be stream-relative. For MessagePack targets the inner I/O error is not printed by rmp_serde; its own failure phrase is required instead.", ref="4 C11"),
 "C12": dict(level="fault_enumeration", technique="exhaustive fault-offset enumeration per generated input: reader failing at every input offset, writer failing at every output offset, short-write patterns, one transient Interrupted at every offset; oracle = verdict, preserved error text, document-prefix / byte-prefix relation to the fault-free run",
   text="For every generated valid stream all reader fault offsets 0..=|input| and all writer fault offsets below the output length are enumerated (sampled only above 2 KiB / 1 KiB), for named and detected sources (UTF-8 and UTF-16/32 YAML), all targets and drawn read schedules; a reader interrupted exactly once at every offset must give the fault-free output or a clean failure (named formats); every writer-fault offset is run with a writer that fails with an error and with one that answers Ok(0), from reader and slice input.",
   note="Faulty readers keep failing once they failed. Complete documents are compared, not byte prefixes, for reader faults.", ref="4 C12"),
 "C13": dict(level="exploration", technique="exhaustive argv enumeration up to a length bound plus random argv (proptest) against a reference model of the command line; real debug/release binaries; stdout pipe, file, pseudo-terminal, /dev/full and closed pipes on stdout/stderr; program names that are not UTF-8",
   text="Every argument vector up to length 2 (quick) / 3 (thorough) over the quantifier's vocabulary is executed and compared with a reference CLI model written from the manual (exit status, which stream carries what, usage text, offending input named, terminal guard); longer vectors are sampled; every vocabulary vector is also run with unwritable stdout/stderr (status by the model, never a signal).",
   note="Unreadable files cannot be produced as root; 'translating nothing' is observed as empty stdout + exit 2.", ref="4 C13"),
 "C14": dict(level="exploration", technique="property-based testing (proptest) of generated file names / contents / input kinds through the real binaries against reference resolution (-f > extension > detection) and in-process library output",
   text="Generated combinations of -f, extension spelling and case, content, input kind (mmap file, empty file, FIFO, stdin, stdin redirected from a file at an offset, '-' positions, '-' twice, directory), unrecognised one-letter / odd-case extensions and target; stdout and exit status must equal the reference model whose bytes come from the library in the matching supply mode.",
   note="Relies on C01-C03 for the correctness of the library output it compares with.", ref="4 C14"),
 "C15": dict(level="fault_enumeration", technique="fault enumeration through the real binaries: one failing input of every failure kind planted at every position of generated input lists (sizes below/around/above the stdout buffer), oracle = stdout starts with the library's translations of the preceding inputs",
   text="Each generated list of inputs gets one planted failure (position and kind drawn so that all occur); exit status and the prefix relation of stdout are checked against the reference CLI model; success runs must be exact. Good inputs are regular files, FIFOs and standard input in all four formats.",
   note="Outputs below the 8 KiB buffer are the discriminating class (required by the health check).", ref="4 C15"),
 "C16": dict(level="fault_enumeration", technique="fault enumeration through the real binaries: consumer closes the stdout pipe after k bytes for drawn k over several pipe capacities (4 KiB and 64 KiB pipes), stdout on /dev/full (also with the 8 KiB buffer filling at every position inside a document), a stream socket whose peer is gone, a full non-blocking pipe; inputs sized from the library's output so the outcome is decided by construction",
   text="The harness is the pipe consumer, so it owns the closing point; wait status must be SIGPIPE with empty stderr for every closing point, target, input route and per-input output size (which decides whether write, write_all or flush meets the error); /dev/full must give exit 1 and an error line.",
   note="Linux pipe semantics assumed.", ref="4 C16"),
 "C17": dict(level="exploration", engine="xtv-asan", technique="property-based testing (proptest) of the YAML path inside a nightly AddressSanitizer build of the harness, with contract-keeping, failing and over-reporting readers and early parser drops; per-case leak oracle via a counting global allocator; Miri sample in the thorough tier",
   text="The generated cases execute under AddressSanitizer, so out-of-bounds accesses, use-after-free and double frees on any executed path abort the worker and are attributed to the traced case; leaks are decided per case by the heap level returning to its entry value (libyaml allocates through the same global allocator). Uninitialised reads are outside ASan's reach and are only sampled under Miri in the thorough tier.",
   note="Sees executed paths only. Known finding K9: a panic provoked by an over-reporting reader unwinds through libyaml and leaks the token under construction.", ref="4 C17"),
 "C18": dict(level="exploration", technique="exhaustive enumeration of depth windows around measured limits for every shape/target/mode/named-or-detected combination, in-process (crash-isolated) and through the debug and release binaries; far-beyond depths up to 10^6",
   text="The limit of each source format is measured on a baseline and every other combination of shape, target, supply mode and detection must agree with it at every depth of the window (nests ending in a scalar and hollow nests ending in an empty collection) (and at every depth from 1 in the thorough scan); MessagePack's limit must be exactly 1023; the real binaries must exit 0/1 (never a signal) at window and far-beyond depths from a file and from stdin.",
   note="Depth is counted in collections around a scalar (TOML: root table included, inline below). YAML deeper than 20,000 uses block sequences because libyaml is quadratic in flow depth.", ref="4 C18"),
}

PENDING = {}

def main():
    props = [json.loads(l)["id"] for l in open("/verif/properties.jsonl")]
    checks = []
    for pid in props:
        if pid not in CHECKS:
            continue
        c = CHECKS[pid]
        checks.append({
            "property_id": pid,
            "quick_cmd": f"./check {pid} quick",
            "thorough_cmd": f"./check {pid} thorough",
            "evidence_file": f"/verif/evidence/{pid}.json",
            "replay_cmd_template": "./check replay {path}",
            "engine": c.get("engine", "xtv"),
            "level_claimed": {"category": c["level"], "text": c["text"], "design_ref": c["ref"]},
            "level_note": c["note"],
            "technique": c["technique"],
        })
    na = [{"property_id": p, "reason": PENDING.get(p, "check not built yet in this revision of the machinery (planned; see DESIGN.md section 4)")} for p in props if p not in CHECKS]
    m = {
        "version": 1,
        "setup_cmd": "./check build",
        "hooks": {
            "guard": "cargo feature 'verif' of the xt crate",
            "enable": "the harness crate depends on xt with features = [\"verif\"] (path dependency on /repo); the xt binaries used by CLI checks are built with the feature off",
            "baseline_off_cmd": "cd /repo && cargo test --workspace --no-fail-fast --offline",
            "source_commits": HOOK_COMMITS,
            "add_only": True,
        },
        "engines": [
            {"name": "xtv", "path": "/verif/harness", "serves_properties": sorted(p for p in CHECKS if p != "C17"), "kind_free_text": "Rust harness (proptest TestRunner + bounded enumerators), crash-isolated worker processes, independent readers/writers, reference CLI model, replay files"},
            {"name": "xtv-fuzz", "path": "/verif/fuzz", "serves_properties": ["C02", "C04", "C09", "C17"], "kind_free_text": "cargo-fuzz / libFuzzer targets (AddressSanitizer) whose bodies are the harness oracles; second stage of the thorough tier of these four properties"},
            {"name": "xtv-asan", "path": "/verif/harness", "serves_properties": ["C17"], "kind_free_text": "the same harness built with nightly -Zsanitizer=address (cargo feature 'asan'); cargo +nightly miri for the thorough sample"},
        ],
        "checks": checks,
        "not_applicable": na,
        "notes": "Entry point ./check <ID> <quick|thorough>; rebuilds the harness (and, for CLI properties, the xt binaries) from /repo's working tree on every invocation. Known findings: /verif/known_findings.jsonl.",
    }
    json.dump(m, open("/verif/MANIFEST.json", "w"), indent=1)
    print("checks:", [c["property_id"] for c in checks], "n/a:", len(na))

main()
